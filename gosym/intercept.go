package main

// Intercepted functions: the nd API, assembly-backed primitives, synchronisation
// (cooperative), formatting and a few reflection-based helpers. Every entry here is
// part of the trusted base and is listed in the evidence.

import (
	"fmt"
	"go/token"
	"go/types"
	"strconv"
	"strings"

	"golang.org/x/tools/go/ssa"
)

type interceptFn func(m *Machine, caller *frame, fn *ssa.Function, args []Value) (Value, bool)

var intercepts = map[string]interceptFn{}

func reg(name string, f func(m *Machine, caller *frame, args []Value) Value) {
	intercepts[name] = func(m *Machine, caller *frame, fn *ssa.Function, args []Value) (Value, bool) {
		return f(m, caller, args), true
	}
}

func (m *Machine) newNd(kind string, w uint8) Int {
	if m.concrete {
		var v uint64
		if m.vecPos < len(m.vec) {
			v = m.vec[m.vecPos]
		}
		m.vecPos++
		v &= mask(w)
		m.ndvals = append(m.ndvals, ndVal{Kind: kind, W: w, C: v})
		return Int{C: v}
	}
	t := m.ts.NewVar(w)
	m.ndvals = append(m.ndvals, ndVal{Kind: kind, W: w, T: t})
	return Int{T: t}
}

func (m *Machine) concStr(v Value, what string) string {
	s := v.(Str)
	if s.B != nil {
		unsupported("%s: symbolic string", what)
	}
	return s.S
}

func init() {
	nd := ndPath + "."
	reg(nd+"Byte", func(m *Machine, fr *frame, a []Value) Value { return m.newNd("byte", 8) })
	reg(nd+"Uint16", func(m *Machine, fr *frame, a []Value) Value { return m.newNd("u16", 16) })
	reg(nd+"Uint32", func(m *Machine, fr *frame, a []Value) Value { return m.newNd("u32", 32) })
	reg(nd+"Uint64", func(m *Machine, fr *frame, a []Value) Value { return m.newNd("u64", 64) })
	reg(nd+"Int64", func(m *Machine, fr *frame, a []Value) Value { return m.newNd("i64", 64) })
	reg(nd+"Int", func(m *Machine, fr *frame, a []Value) Value { return m.newNd("int", 64) })
	reg(nd+"Rune", func(m *Machine, fr *frame, a []Value) Value { return m.newNd("rune", 32) })
	reg(nd+"Bool", func(m *Machine, fr *frame, a []Value) Value {
		if m.concrete {
			x := m.newNd("bool", 64)
			return Bool{C: x.C&1 == 1}
		}
		t := m.ts.NewVar(0)
		m.ndvals = append(m.ndvals, ndVal{Kind: "bool", W: 0, T: t})
		return Bool{T: t}
	})
	reg(nd+"Choice", func(m *Machine, fr *frame, a []Value) Value {
		n := a[0].(Int)
		if n.T != nil || n.C == 0 || n.C > 1<<16 {
			unsupported("nd.Choice needs a concrete n in 1..65536")
		}
		if m.concrete {
			x := m.newNd("choice", 64)
			return Int{C: x.C % n.C}
		}
		w := uint8(8)
		if n.C > 256 {
			w = 16
		}
		t := m.ts.NewVar(w)
		m.ndvals = append(m.ndvals, ndVal{Kind: "choice", W: w, T: t})
		if n.C < 1<<w {
			m.assume(m.ts.Cmp(OpUlt, t, m.ts.Const(w, n.C)))
		}
		return mkInt(m.ts.Zext(t, 64))
	})
	reg(nd+"Assume", func(m *Machine, fr *frame, a []Value) Value {
		b := a[0].(Bool)
		if m.concrete {
			if !b.C {
				m.pathOutcome("assume-failed", "")
				panic(pathAbort{})
			}
			return nil
		}
		m.assume(m.bterm(b))
		return nil
	})
	reg(nd+"Assert", func(m *Machine, fr *frame, a []Value) Value {
		b := a[0].(Bool)
		label := m.concStr(a[1], "nd.Assert label")
		if m.concrete {
			m.cur.assertions++
			if !b.C {
				m.cur.violations = append(m.cur.violations, Violation{Label: label, Entry: m.entry.Func})
				m.pathOutcome("violation", label)
				panic(pathAbort{})
			}
			return nil
		}
		m.check(m.bterm(b), label, "")
		return nil
	})
	reg(nd+"Fail", func(m *Machine, fr *frame, a []Value) Value {
		label := m.concStr(a[0], "nd.Fail label")
		if m.concrete {
			m.cur.violations = append(m.cur.violations, Violation{Label: label, Entry: m.entry.Func})
			m.pathOutcome("violation", label)
			panic(pathAbort{})
		}
		m.check(m.ts.ff, label, "")
		return nil
	})
	reg(nd+"Reach", func(m *Machine, fr *frame, a []Value) Value {
		label := m.concStr(a[0], "nd.Reach label")
		if _, ok := m.cur.reached[label]; !ok {
			if m.concrete {
				m.cur.reached[label] = nil
			} else if m.ensureModel() {
				vals, _ := m.valuesUnder(m.model)
				m.cur.reached[label] = vals
			}
		}
		return nil
	})
	reg(nd+"Param", func(m *Machine, fr *frame, a []Value) Value {
		name := m.concStr(a[0], "nd.Param")
		v, ok := m.entry.params[name]
		if !ok {
			unsupported("nd.Param(%q): not configured", name)
		}
		return Int{C: uint64(int64(v))}
	})
	reg(nd+"And", func(m *Machine, fr *frame, a []Value) Value { return m.boolAnd(a[0].(Bool), a[1].(Bool)) })
	reg(nd+"Or", func(m *Machine, fr *frame, a []Value) Value { return m.boolOr(a[0].(Bool), a[1].(Bool)) })
	reg(nd+"Not", func(m *Machine, fr *frame, a []Value) Value { return m.boolNot(a[0].(Bool)) })
	reg(nd+"Implies", func(m *Machine, fr *frame, a []Value) Value {
		return m.boolOr(m.boolNot(a[0].(Bool)), a[1].(Bool))
	})
	reg(nd+"Iff", func(m *Machine, fr *frame, a []Value) Value { return m.boolEq(a[0].(Bool), a[1].(Bool)) })
	iteInt := func(w uint8) func(m *Machine, fr *frame, a []Value) Value {
		return func(m *Machine, fr *frame, a []Value) Value {
			c := a[0].(Bool)
			if c.T == nil {
				if c.C {
					return a[1]
				}
				return a[2]
			}
			return mkInt(m.ts.Ite(c.T, m.term(a[1].(Int), w), m.term(a[2].(Int), w)))
		}
	}
	reg(nd+"IteInt", iteInt(64))
	reg(nd+"IteU64", iteInt(64))
	reg(nd+"IteU32", iteInt(32))
	reg(nd+"IteByte", iteInt(8))
	reg(nd+"IteBool", func(m *Machine, fr *frame, a []Value) Value {
		c := a[0].(Bool)
		if c.T == nil {
			if c.C {
				return a[1]
			}
			return a[2]
		}
		return mkBool(m.ts.Ite(c.T, m.bterm(a[1].(Bool)), m.bterm(a[2].(Bool))))
	})
	reg(nd+"Concretize", func(m *Machine, fr *frame, a []Value) Value {
		x := a[0].(Int)
		if m.concrete {
			return x
		}
		return Int{C: m.concInt(x, 64, "nd.Concretize")}
	})
	reg(nd+"ConcretizeString", func(m *Machine, fr *frame, a []Value) Value {
		s := a[0].(Str)
		if s.B == nil {
			return s
		}
		out := make([]byte, len(s.B))
		for i, b := range s.B {
			out[i] = byte(m.concInt(b, 8, "nd.ConcretizeString"))
		}
		return Str{S: string(out)}
	})
	reg(nd+"IsSymbolic", func(m *Machine, fr *frame, a []Value) Value { return Bool{C: !m.concrete} })
	reg(nd+"Note", func(m *Machine, fr *frame, a []Value) Value {
		key := m.concStr(a[0], "nd.Note key")
		var parts []string
		for _, v := range a[1].(Slice).A {
			parts = append(parts, m.fmtNote(v))
		}
		m.cur.notes = append(m.cur.notes, key+"="+strings.Join(parts, ","))
		return nil
	})
	reg(nd+"Goroutines", func(m *Machine, fr *frame, a []Value) Value {
		n := 0
		for _, g := range m.gs {
			if !g.done && g != m.curG {
				n++
			}
		}
		return Int{C: uint64(n)}
	})
	reg(nd+"Recover", func(m *Machine, fr *frame, a []Value) Value { return nil })
	reg(nd+"Register", func(m *Machine, fr *frame, a []Value) Value { return nil })

	// ---- assembly-backed primitives -------------------------------------------------
	reg("internal/bytealg.IndexByteString", func(m *Machine, fr *frame, a []Value) Value {
		return m.indexByte(a[0].(Str).Bytes(), a[1].(Int))
	})
	reg("internal/bytealg.IndexByte", func(m *Machine, fr *frame, a []Value) Value {
		return m.indexByte(sliceBytes(a[0].(Slice)), a[1].(Int))
	})
	reg("internal/bytealg.CountString", func(m *Machine, fr *frame, a []Value) Value {
		return m.countByte(a[0].(Str).Bytes(), a[1].(Int))
	})
	reg("internal/bytealg.Count", func(m *Machine, fr *frame, a []Value) Value {
		return m.countByte(sliceBytes(a[0].(Slice)), a[1].(Int))
	})
	reg("internal/bytealg.Equal", func(m *Machine, fr *frame, a []Value) Value {
		return m.strEq(normStr(sliceBytes(a[0].(Slice))), normStr(sliceBytes(a[1].(Slice))))
	})
	reg("bytes.Equal", func(m *Machine, fr *frame, a []Value) Value {
		return m.strEq(normStr(sliceBytes(a[0].(Slice))), normStr(sliceBytes(a[1].(Slice))))
	})
	reg("internal/bytealg.Compare", func(m *Machine, fr *frame, a []Value) Value {
		x, y := normStr(sliceBytes(a[0].(Slice))), normStr(sliceBytes(a[1].(Slice)))
		return m.compareStr(x, y)
	})
	reg("bytes.Compare", func(m *Machine, fr *frame, a []Value) Value {
		x, y := normStr(sliceBytes(a[0].(Slice))), normStr(sliceBytes(a[1].(Slice)))
		return m.compareStr(x, y)
	})
	reg("internal/stringslite.Index", func(m *Machine, fr *frame, a []Value) Value {
		return m.indexStr(a[0].(Str), a[1].(Str))
	})
	reg("strings.Index", func(m *Machine, fr *frame, a []Value) Value {
		return m.indexStr(a[0].(Str), a[1].(Str))
	})
	reg("bytes.Index", func(m *Machine, fr *frame, a []Value) Value {
		return m.indexStr(normStr(sliceBytes(a[0].(Slice))), normStr(sliceBytes(a[1].(Slice))))
	})
	reg("internal/bytealg.IndexString", func(m *Machine, fr *frame, a []Value) Value {
		return m.indexStr(a[0].(Str), a[1].(Str))
	})
	reg("internal/bytealg.Index", func(m *Machine, fr *frame, a []Value) Value {
		return m.indexStr(normStr(sliceBytes(a[0].(Slice))), normStr(sliceBytes(a[1].(Slice))))
	})
	reg("internal/bytealg.MakeNoZero", func(m *Machine, fr *frame, a []Value) Value {
		n := m.concInt(a[0].(Int), 64, "MakeNoZero")
		s := make([]Value, n)
		for i := range s {
			s[i] = zeroInt
		}
		return Slice{A: s}
	})
	reg("internal/stringslite.Clone", func(m *Machine, fr *frame, a []Value) Value { return a[0] })
	reg("strings.Clone", func(m *Machine, fr *frame, a []Value) Value { return a[0] })
	reg("internal/abi.NoEscape", func(m *Machine, fr *frame, a []Value) Value { return a[0] })
	reg("internal/abi.Escape", func(m *Machine, fr *frame, a []Value) Value { return a[0] })
	reg("strings.(*Builder).copyCheck", func(m *Machine, fr *frame, a []Value) Value { return nil })
	reg("internal/race.Enabled", func(m *Machine, fr *frame, a []Value) Value { return Bool{} })
	reg("runtime.KeepAlive", func(m *Machine, fr *frame, a []Value) Value { return nil })
	reg("runtime.GC", func(m *Machine, fr *frame, a []Value) Value { return nil })
	reg("runtime.Gosched", func(m *Machine, fr *frame, a []Value) Value {
		m.idle = 0
		m.yieldOnce()
		return nil
	})
	reg("runtime/debug.Stack", func(m *Machine, fr *frame, a []Value) Value { return Slice{A: []Value{}} })
	reg("runtime.SetFinalizer", func(m *Machine, fr *frame, a []Value) Value { return nil })
	reg("math.Float64bits", func(m *Machine, fr *frame, a []Value) Value {
		return Int{C: float64bits(float64(a[0].(Float)))}
	})
	reg("math.Float64frombits", func(m *Machine, fr *frame, a []Value) Value {
		return Float(float64frombits(m.concInt(a[0].(Int), 64, "Float64frombits")))
	})
	reg("math.Float32bits", func(m *Machine, fr *frame, a []Value) Value {
		return Int{C: uint64(float32bits(float32(a[0].(Float))))}
	})
	reg("math.Float32frombits", func(m *Machine, fr *frame, a []Value) Value {
		return Float(float64(float32frombits(uint32(m.concInt(a[0].(Int), 32, "Float32frombits")))))
	})

	registerSync()
	registerFmt()
	registerMisc()
}

func sliceBytes(s Slice) []Int {
	r := make([]Int, len(s.A))
	for i, e := range s.A {
		r[i] = e.(Int)
	}
	return r
}

func (m *Machine) indexByte(b []Int, c Int) Value {
	for i, x := range b {
		if x.T == nil && c.T == nil {
			if x.C == c.C {
				return Int{C: uint64(i)}
			}
			continue
		}
		if m.branch(mkBool(m.ts.Eq(m.term(x, 8), m.term(c, 8)))) {
			return Int{C: uint64(i)}
		}
	}
	return Int{C: mask(64)}
}

func (m *Machine) countByte(b []Int, c Int) Value {
	acc := m.ts.Const(64, 0)
	for _, x := range b {
		eq := m.ts.Eq(m.term(x, 8), m.term(c, 8))
		acc = m.ts.Bin(OpAdd, acc, m.ts.Ite(eq, m.ts.Const(64, 1), m.ts.Const(64, 0)))
	}
	return mkInt(acc)
}

func (m *Machine) compareStr(x, y Str) Value {
	if m.branch(m.strEq(x, y)) {
		return Int{C: 0}
	}
	if m.branch(m.strLess(x, y, false)) {
		return Int{C: mask(64)}
	}
	return Int{C: 1}
}

func (m *Machine) indexStr(s, sub Str) Value {
	n := sub.Len()
	if s.B == nil && sub.B == nil {
		return Int{C: uint64(int64(strings.Index(s.S, sub.S)))}
	}
	for i := 0; i+n <= s.Len(); i++ {
		if m.branch(m.strEq(s.Sub(i, i+n), sub)) {
			return Int{C: uint64(i)}
		}
	}
	return Int{C: mask(64)}
}

func (m *Machine) yieldOnce() {
	g := m.curG
	next := m.nextRunnable(g)
	if next == nil {
		return
	}
	g.blockedOn = "yield"
	m.switches++
	m.curG = next
	next.wake <- struct{}{}
	<-g.wake
	if m.killed {
		panic(pathAbort{})
	}
	m.curG = g
}

// fmtNote mirrors nd.fmtVal.
func (m *Machine) fmtNote(v Value) string {
	itf, ok := v.(Iface)
	if !ok {
		return "?"
	}
	if itf.T == nil {
		return "nil"
	}
	switch x := itf.V.(type) {
	case Bool:
		if x.T != nil {
			return x.T.String()
		}
		if x.C {
			return "true"
		}
		return "false"
	case Int:
		if x.T != nil {
			return x.T.String()
		}
		if b, ok := itf.T.Underlying().(*types.Basic); ok {
			w, signed := intWidth(b)
			if signed {
				return strconv.FormatInt(sext64(x.C, w), 10)
			}
		}
		return strconv.FormatUint(x.C, 10)
	case Str:
		if x.B != nil {
			return describe(x)
		}
		return hexq(x.S)
	case Slice:
		if sl, ok := itf.T.Underlying().(*types.Slice); ok && isByteType(sl.Elem()) {
			s := normStr(sliceBytes(x))
			if s.B != nil {
				return describe(s)
			}
			return hexq(s.S)
		}
	}
	if m.implements(itf.T, errorIface) {
		return "err"
	}
	return "?"
}

var errorIface = types.Universe.Lookup("error").Type().Underlying().(*types.Interface)

func hexq(s string) string {
	const hexd = "0123456789abcdef"
	b := make([]byte, 0, len(s)+2)
	b = append(b, '"')
	for i := 0; i < len(s); i++ {
		c := s[i]
		if c >= 0x20 && c < 0x7f && c != '"' && c != '\\' {
			b = append(b, c)
		} else {
			b = append(b, '\\', 'x', hexd[c>>4], hexd[c&15])
		}
	}
	b = append(b, '"')
	return string(b)
}

// tryErrorString calls Error() on an error value.
func (m *Machine) tryErrorString(itf Iface) (string, bool) {
	if itf.T == nil || !m.implements(itf.T, errorIface) {
		return "", false
	}
	f := m.prog.ssa.LookupMethod(itf.T, nil, "Error")
	if f == nil {
		return "", false
	}
	var out string
	ok := func() (ok bool) {
		defer func() {
			if r := recover(); r != nil {
				if _, isAbort := r.(pathAbort); isAbort {
					panic(r)
				}
				ok = false
			}
		}()
		s := m.call(nil, token.NoPos, f, []Value{itf.V}).(Str)
		if s.B != nil {
			out = describe(s)
		} else {
			out = s.S
		}
		return true
	}()
	return out, ok
}

func (m *Machine) hostMethod(recv Iface, meth *types.Func) Value { return nil }

var _ = fmt.Sprint
