package main

import (
	"flag"
	"fmt"
	"os"
	"path/filepath"
	"runtime"
	"runtime/pprof"
	"sort"
	"strconv"
	"strings"
	"time"
)

func expandGrid(t *TierSpec) []map[string]int {
	base := map[string]int{}
	for k, v := range t.Params {
		base[k] = v
	}
	cases := []map[string]int{base}
	var keys []string
	for k := range t.Grid {
		keys = append(keys, k)
	}
	sort.Strings(keys)
	for _, k := range keys {
		var next []map[string]int
		for _, c := range cases {
			for _, v := range t.Grid[k] {
				n := map[string]int{}
				for kk, vv := range c {
					n[kk] = vv
				}
				n[k] = v
				next = append(next, n)
			}
		}
		cases = next
	}
	return cases
}

func paramString(p map[string]int) string {
	var keys []string
	for k := range p {
		keys = append(keys, k)
	}
	sort.Strings(keys)
	var parts []string
	for _, k := range keys {
		parts = append(parts, fmt.Sprintf("%s=%d", k, p[k]))
	}
	return strings.Join(parts, ",")
}

func main() {
	if len(os.Args) < 2 {
		fmt.Fprintln(os.Stderr, "usage: gosym check <spec.json> [flags]")
		os.Exit(2)
	}
	switch os.Args[1] {
	case "check":
		os.Exit(cmdCheck(os.Args[2:]))
	case "replay":
		os.Exit(cmdReplay(os.Args[2:]))
	case "run":
		os.Exit(cmdRun(os.Args[2:]))
	default:
		fmt.Fprintln(os.Stderr, "unknown command", os.Args[1])
		os.Exit(2)
	}
}

func cmdCheck(args []string) int {
	fs := flag.NewFlagSet("check", flag.ExitOnError)
	tier := fs.String("tier", "", "quick|thorough (default: $VERIF_TIER or quick)")
	only := fs.String("entry", "", "run only this entry")
	workers := fs.Int("workers", 0, "number of workers (default: NumCPU)")
	verifDir := fs.String("verif", "/verif", "verification directory")
	repoDir := fs.String("repo", "/repo", "repository directory")
	noReplay := fs.Bool("no-replay", false, "do not replay counterexamples natively")
	noValidate := fs.Bool("no-validate", false, "skip translator validation")
	noEvidence := fs.Bool("no-evidence", false, "do not write the evidence file")
	verbose := fs.Bool("v", false, "verbose")
	cross := fs.String("cross", "z3", "second solver for final obligations (\"\" to disable)")
	// allow flags after the spec file
	var flagArgs, posArgs []string
	for i := 0; i < len(args); i++ {
		a := args[i]
		if strings.HasPrefix(a, "-") {
			flagArgs = append(flagArgs, a)
			if !strings.Contains(a, "=") && i+1 < len(args) && !strings.HasPrefix(args[i+1], "-") {
				switch strings.TrimLeft(a, "-") {
				case "tier", "entry", "workers", "verif", "repo", "cross", "cpuprofile":
					i++
					flagArgs = append(flagArgs, args[i])
				}
			}
		} else {
			posArgs = append(posArgs, a)
		}
	}
	cpuprof := fs.String("cpuprofile", "", "write a CPU profile")
	fs.Parse(append(flagArgs, posArgs...))
	if *cpuprof != "" {
		f, err := os.Create(*cpuprof)
		if err == nil {
			pprof.StartCPUProfile(f)
			defer pprof.StopCPUProfile()
		}
	}
	if fs.NArg() < 1 {
		fmt.Fprintln(os.Stderr, "check: need a spec file")
		return 2
	}
	if *tier == "" {
		*tier = os.Getenv("VERIF_TIER")
	}
	if *tier != "thorough" {
		*tier = "quick"
	}
	if *workers == 0 {
		*workers = runtime.NumCPU()
	}
	seed := int64(1)
	if s := os.Getenv("VERIF_SEED"); s != "" {
		if v, err := strconv.ParseInt(s, 10, 64); err == nil {
			seed = v
		}
	}
	specPath := fs.Arg(0)
	if !filepath.IsAbs(specPath) {
		if _, err := os.Stat(specPath); err != nil {
			specPath = filepath.Join(*verifDir, "checks", specPath)
		}
	}
	spec, err := readSpec(specPath)
	if err != nil {
		fmt.Fprintln(os.Stderr, err)
		return 2
	}
	start := time.Now()
	run := &CheckRun{spec: spec, tier: *tier, seed: seed, workers: *workers, verifDir: *verifDir, repoDir: *repoDir,
		noReplay: *noReplay, noValidate: *noValidate, noEvidence: *noEvidence, verbose: *verbose, cross: *cross, only: *only, start: start}
	return run.Run()
}

// pickPart selects the part of a multi-package spec that defines the entry named in a case file.
func pickPart(spec *CheckSpec, caseFile string) *CheckSpec {
	if len(spec.Parts) == 0 {
		return spec
	}
	data, _ := os.ReadFile(caseFile)
	for _, line := range strings.Split(string(data), "\n") {
		f := strings.Fields(line)
		if len(f) >= 2 && f[0] == "case" {
			for _, p := range spec.Parts {
				for _, e := range p.Entries {
					if e.Func == f[1] {
						p.Property = spec.Property
						return p
					}
				}
			}
		}
	}
	return spec.Parts[0]
}

// cmdReplay runs a saved counterexample natively.
func cmdReplay(args []string) int {
	if len(args) < 2 {
		fmt.Fprintln(os.Stderr, "usage: gosym replay <spec.json> <replay-file>")
		return 2
	}
	specPath := args[0]
	if !filepath.IsAbs(specPath) {
		if _, err := os.Stat(specPath); err != nil {
			specPath = filepath.Join("/verif", "checks", specPath)
		}
	}
	spec, err := readSpec(specPath)
	if err != nil {
		fmt.Fprintln(os.Stderr, err)
		return 2
	}
	spec = pickPart(spec, args[1])
	r := &CheckRun{spec: spec, verifDir: "/verif", repoDir: repoDefault()}
	r.tmpDir, _ = os.MkdirTemp("", "gosym-")
	defer os.RemoveAll(r.tmpDir)
	r.prog, err = LoadProgram(spec, r.verifDir, r.repoDir)
	if err != nil {
		fmt.Fprintln(os.Stderr, err)
		return 2
	}
	abs, _ := filepath.Abs(args[1])
	cases, status, err := r.runNative(abs, 120*time.Second)
	if err != nil {
		fmt.Fprintln(os.Stderr, err)
		return 2
	}
	fmt.Println("status:", status)
	rc := 0
	for i, c := range cases {
		fmt.Printf("case %d: outcome=%s\n", i, c.outcome)
		for _, n := range c.notes {
			fmt.Println("  note", n)
		}
		if c.outcome != "ok" {
			rc = 1
		}
	}
	return rc
}

// cmdRun executes a case file inside the engine in concrete mode (debugging aid and
// the engine half of translator validation).
func cmdRun(args []string) int {
	if len(args) < 2 {
		fmt.Fprintln(os.Stderr, "usage: gosym run <spec.json> <case-file>")
		return 2
	}
	specPath := args[0]
	if !filepath.IsAbs(specPath) {
		if _, err := os.Stat(specPath); err != nil {
			specPath = filepath.Join("/verif", "checks", specPath)
		}
	}
	spec, err := readSpec(specPath)
	if err != nil {
		fmt.Fprintln(os.Stderr, err)
		return 2
	}
	spec = pickPart(spec, args[1])
	prog, err := LoadProgram(spec, "/verif", repoDefault())
	if err != nil {
		fmt.Fprintln(os.Stderr, err)
		return 2
	}
	data, err := os.ReadFile(args[1])
	if err != nil {
		fmt.Fprintln(os.Stderr, err)
		return 2
	}
	m := NewMachine(prog)
	m.ex = &Explorer{prog: prog, cfg: ExploreConfig{MaxDecisions: 1 << 30}}
	m.ex.outcomes = map[string]int{}
	if msg := m.initPackages(); msg != "" {
		fmt.Fprintln(os.Stderr, "init:", msg)
		return 2
	}
	var entry *EntrySpec
	params := map[string]int{}
	var vals []uint64
	for _, line := range strings.Split(string(data), "\n") {
		f := strings.Fields(line)
		if len(f) == 0 {
			continue
		}
		switch f[0] {
		case "case":
			for _, e := range spec.Entries {
				if e.Func == f[1] {
					entry = e
				}
			}
		case "param":
			n, _ := strconv.Atoi(f[2])
			params[f[1]] = n
		case "val":
			n, _ := strconv.ParseUint(f[1], 10, 64)
			vals = append(vals, n)
		}
	}
	if entry == nil {
		fmt.Fprintln(os.Stderr, "entry not found")
		return 2
	}
	entry.params = params
	m.entry = entry
	m.concrete = true
	m.vec = vals
	m.stepLimit = 50_000_000
	res := m.runPath(WorkItem{})
	fmt.Printf("outcome=%s detail=%s steps=%d\n", res.outcome, res.detail, res.steps)
	for _, v := range res.violations {
		fmt.Printf("violation label=%s msg=%s\n", v.Label, v.Msg)
	}
	for _, n := range res.notes {
		fmt.Println("  note", n)
	}
	return 0
}

// repoDefault: the repository the replay/run sub-commands work on ($VERIF_REPO, default /repo).
func repoDefault() string {
	if d := os.Getenv("VERIF_REPO"); d != "" {
		return d
	}
	return "/repo"
}
