package main

// Path exploration: execution-generated-testing style. A path is a list of
// decisions taken at symbolic branches; a worker re-executes the harness from the
// start following its prefix, and at every new symbolic branch follows the side the
// current model satisfies while asking the solver about the other side.

import (
	"fmt"
	"go/token"
	"os"
	"sort"
	"strings"
	"sync"
	"time"

	"golang.org/x/tools/go/ssa"
)

type Decision struct {
	Side   bool
	Val    uint64
	HasVal bool
}

type WorkItem struct {
	prefix []Decision
	model  Model
}

type journalEntry struct {
	addr *Value
	old  Value
}

type ndVal struct {
	Kind string
	W    uint8
	T    *Term  // nil when produced in concrete mode
	C    uint64 // concrete-mode value
}

type Violation struct {
	Label    string   `json:"label"`
	Msg      string   `json:"msg"`
	Entry    string   `json:"entry"`
	Values   []uint64 `json:"values"`
	Kinds    []string `json:"kinds"`
	Notes    []string `json:"notes,omitempty"`
	Outcome  string   `json:"outcome"`
	PathLen  int      `json:"path_len"`
	Replayed string   `json:"replayed,omitempty"`
}

type PathResult struct {
	outcome    string // ok, assume-dead, step-limit, deadlock, depth-limit, unsupported, panic, goroutine-panic
	detail     string
	violations []Violation
	reached    map[string][]uint64 // label -> witness values
	notes      []string
	steps      int64
	ndec       int
	assertions int
	sample     string
}

type Machine struct {
	prog   *Program
	ts     *TermStore
	solver *Solver
	xsolv  *Solver // cross-check solver (final obligations)
	isolv  *Solver // cvc5 bv-as-int for arithmetic-heavy obligations

	globals   map[*ssa.Global]*Value
	finfo     map[*ssa.Function]*funcInfo
	consts    map[*ssa.Const]Value
	inited    map[*ssa.Package]bool
	implCache map[implKey]bool

	journalOn bool
	journal   []journalEntry
	undo      []func()

	steps     int64
	stepLimit int64

	// scheduler
	gs                []*G
	curG              *G
	killed            bool
	idle              int
	switches          int
	handoffs          int64
	chanSeq           int
	goroutinesSpawned int
	uncaughtPanic     *goPanic
	fatalErr          interface{}

	// path state
	concrete  bool     // concrete mode: nd values come from vec
	vec       []uint64 // concrete-mode input
	vecPos    int
	prefix    []Decision
	decisions []Decision
	model     Model
	modelValid bool
	lastUnsat  bool // the last ensureModel query proved the path condition unsatisfiable
	ndvals    []ndVal
	cur       *PathResult
	entry     *EntrySpec
	ex        *Explorer
	pathConds []*Term

	trackFuncs bool
	funcsSeen  map[*ssa.Function]struct{}
	monitor    *recMonitor
	hostState  map[string]interface{}
	logMsgs    []string
	ptrOrigin  map[*Value][]Value
	known      map[int32]bool
	pinned     map[int32]uint64 // terms already concretised on this path (replay-safe: no decision, no prefix entry)
	timersCreated int
	tlsReads, tlsWrites int
	initSteps  int64
}

// recMonitor observes call entry/exit (recursion guard, section 2 C06/C11).
type recMonitor struct {
	enterFn func(fr *frame)
	leaveFn func(fr *frame)
}

func (r *recMonitor) enter(fr *frame) {
	if r.enterFn != nil {
		r.enterFn(fr)
	}
}
func (r *recMonitor) leave(fr *frame) {
	if r.leaveFn != nil {
		r.leaveFn(fr)
	}
}

func NewMachine(prog *Program) *Machine {
	m := &Machine{
		prog:      prog,
		ts:        NewTermStore(),
		globals:   map[*ssa.Global]*Value{},
		finfo:     map[*ssa.Function]*funcInfo{},
		consts:    map[*ssa.Const]Value{},
		inited:    map[*ssa.Package]bool{},
		implCache: map[implKey]bool{},
		funcsSeen: map[*ssa.Function]struct{}{},
		ptrOrigin: map[*Value][]Value{},
		stepLimit: 1 << 40,
	}
	m.resetSched()
	return m
}

func (m *Machine) pathOutcome(kind, detail string) {
	if m.cur != nil && m.cur.outcome == "" {
		m.cur.outcome = kind
		m.cur.detail = detail
	}
}

// suggest proposes a concrete value for t: the recorded one when replaying a
// prefix, otherwise its value under the current model.
func (m *Machine) suggest(t *Term) uint64 {
	if m.concrete {
		panic("suggest in concrete mode")
	}
	n := len(m.decisions)
	if n < len(m.prefix) && m.prefix[n].HasVal {
		return m.prefix[n].Val
	}
	return m.ts.Eval(t, m.model)
}

func (m *Machine) decide(c *Term) bool { return m.decideX(c, 0, false) }

func (m *Machine) decideVal(c *Term, v uint64) bool { return m.decideX(c, v, true) }

func (m *Machine) decideX(c *Term, val uint64, hasVal bool) bool {
	if c.op == OpConst {
		return c.k == 1
	}
	// literals already on the path condition are not decisions (e.g. a symbolic mode
	// flag re-tested in every iteration of a loop over concrete data)
	if v, ok := m.known[c.id]; ok {
		return v
	}
	n := len(m.decisions)
	if n >= m.ex.cfg.MaxDecisions {
		m.pathOutcome("decision-limit", fmt.Sprintf("more than %d symbolic decisions on one path", m.ex.cfg.MaxDecisions))
		panic(pathAbort{})
	}
	if n < len(m.prefix) {
		d := m.prefix[n]
		m.decisions = append(m.decisions, d)
		m.assertSide(c, d.Side)
		return d.Side
	}
	if !m.modelValid {
		m.revalidate()
	}
	side := m.ts.Eval(c, m.model) == 1
	var other *Term
	if side {
		other = m.ts.Not(c)
	} else {
		other = c
	}
	res, model := m.solver.Check(other)
	m.ex.noteBranchQuery(res)
	if res == Sat || res == Unknown {
		if res == Unknown {
			m.ex.addUnknownBranch()
			model = nil
		}
		pre := make([]Decision, n+1)
		copy(pre, m.decisions)
		pre[n] = Decision{Side: !side, Val: val, HasVal: hasVal}
		m.ex.push(WorkItem{prefix: pre, model: model})
	}
	m.decisions = append(m.decisions, Decision{Side: side, Val: val, HasVal: hasVal})
	m.assertSide(c, side)
	return side
}

func (m *Machine) assertSide(c *Term, side bool) {
	if !side {
		c = m.ts.Not(c)
	}
	m.addCond(c)
}

// addCond extends the path condition in the primary solver and mirrors it into the
// cross-checking solver (which is only ever asked about final obligations).
func (m *Machine) addCond(c *Term) {
	if c.op == OpNot {
		m.known[c.a.id] = false
	}
	m.known[c.id] = true
	m.solver.Assert(c)
	if m.xsolv != nil {
		m.xsolv.Assert(c)
	}
	m.pathConds = append(m.pathConds, c)
}

// revalidate obtains a model of the current path condition after a prefix whose
// feasibility check was inconclusive.
func (m *Machine) revalidate() {
	res, model := m.solver.Check(nil)
	switch res {
	case Sat:
		m.model = model
		m.modelValid = true
	case Unsat:
		m.pathOutcome("infeasible", "")
		panic(pathAbort{})
	default:
		if m.model == nil {
			m.model = Model{}
		}
	}
}

// assume adds c to the path condition; the path dies when it is infeasible.
func (m *Machine) assume(c *Term) {
	if c.op == OpConst {
		if c.k == 0 {
			m.pathOutcome("assume-dead", "")
			panic(pathAbort{})
		}
		return
	}
	if !m.modelValid || m.ts.Eval(c, m.model) != 1 {
		res, model := m.solver.Check(c)
		m.ex.noteBranchQuery(res)
		switch res {
		case Unsat:
			m.pathOutcome("assume-dead", "")
			panic(pathAbort{})
		case Unknown:
			m.ex.addUnknownBranch()
			m.modelValid = false
		case Sat:
			m.model = model
			m.modelValid = true
		}
	}
	m.addCond(c)
}

// ensureModel makes sure a model of the current path condition is at hand.
func (m *Machine) ensureModel() bool {
	if m.modelValid {
		return true
	}
	res, model := m.solver.Check(nil)
	m.lastUnsat = res == Unsat
	if res == Sat {
		m.model = model
		m.modelValid = true
		return true
	}
	return false
}

// check is nd.Assert: an obligation PC ⇒ c.
func (m *Machine) check(c *Term, label, msg string) {
	m.cur.assertions++
	if c.op == OpConst {
		if c.k == 1 {
			m.ex.noteObligation(true, true)
			return
		}
		// a concretely false assertion is a violation only if the path is feasible: after
		// an inconclusive branch/assume query the path condition has to be re-decided
		if !m.modelValid {
			res, model := m.solver.Check(nil)
			switch res {
			case Sat:
				m.model, m.modelValid = model, true
			case Unsat:
				m.pathOutcome("infeasible", "")
				panic(pathAbort{})
			default:
				m.ex.noteObligation(false, false)
				m.ex.addUnknownObligation(label)
				m.pathOutcome("undecided", label)
				panic(pathAbort{})
			}
		}
		m.ex.noteObligation(true, true)
		m.recordViolation(label, msg, m.model)
		// continue as if it held is impossible: the path ends here
		m.pathOutcome("violation", label)
		panic(pathAbort{})
	}
	neg := m.ts.Not(c)
	res, model := m.solver.Check(neg)
	if res == Unsat && m.xsolv != nil && !m.ex.cfg.NoCross {
		// cross-check the final obligation with a second solver
		r2 := m.crossCheck(neg)
		if r2 == Sat {
			m.ex.noteDisagreement(label, res, r2)
			res = Unknown
		} else if r2 == Unknown {
			m.ex.noteCrossUnknown()
		} else {
			m.ex.noteCrossConfirmed()
		}
	}
	if res == Unknown && m.isolv != nil {
		r3, mod3 := m.intCheck(neg)
		if r3 != Unknown {
			res, model = r3, mod3
		}
	}
	switch res {
	case Sat:
		m.ex.noteObligation(true, false)
		m.recordViolation(label, msg, model)
	case Unknown:
		m.ex.noteObligation(false, false)
		m.ex.addUnknownObligation(label)
	default:
		m.ex.noteObligation(true, true)
	}
	// continue under the assumption that it holds (other assertions may still fail)
	m.assume(c)
}

// crossCheck re-asks the final obligation of the second solver by replaying the
// path condition there.
func (m *Machine) crossCheck(neg *Term) Result {
	m.xsolv.noModel = true
	r, _ := m.xsolv.Check(neg)
	return r
}

func (m *Machine) intCheck(neg *Term) (Result, Model) {
	s := m.isolv
	s.BeginPath()
	for _, c := range m.pathConds {
		s.Assert(c)
	}
	r, model := s.Check(neg)
	s.EndPath()
	return r, model
}

func (m *Machine) altCheck(s *Solver, neg *Term) Result {
	s.BeginPath()
	for _, c := range m.pathConds {
		s.Assert(c)
	}
	r, _ := s.Check(neg)
	s.EndPath()
	return r
}

func (m *Machine) valuesUnder(model Model) ([]uint64, []string) {
	vals := make([]uint64, len(m.ndvals))
	kinds := make([]string, len(m.ndvals))
	for i, nv := range m.ndvals {
		kinds[i] = nv.Kind
		if nv.T == nil {
			vals[i] = nv.C
		} else {
			vals[i] = m.ts.Eval(nv.T, model)
		}
	}
	return vals, kinds
}

func (m *Machine) recordViolation(label, msg string, model Model) {
	vals, kinds := m.valuesUnder(model)
	v := Violation{Label: label, Msg: msg, Entry: m.entry.Func, Values: vals, Kinds: kinds,
		Notes: append([]string(nil), m.cur.notes...), PathLen: len(m.decisions)}
	m.cur.violations = append(m.cur.violations, v)
}

// ---------------------------------------------------------------------------

type ExploreConfig struct {
	Workers      int
	StepLimit    int64
	MaxPaths     int
	MaxDecisions int
	QueryTimeout int // ms
	CrossCheck   string
	IntSolver    bool
	NoCross      bool
	Deadline     time.Time
}

type Explorer struct {
	prog  *Program
	cfg   ExploreConfig
	entry *EntrySpec
	pool  *MachinePool

	mu      sync.Mutex
	cond    *sync.Cond
	queue   []WorkItem
	active  int
	stopped bool

	// results
	paths         int
	outcomes      map[string]int
	outcomeDetail map[string]string
	violations    []Violation
	reached       map[string][]uint64
	reachKinds    map[string][]string
	obligations   int
	discharged    int
	trivialObl    int
	branchQueries int
	unknownBranch int
	unknownObl    []string
	disagreements []string
	totalSteps    int64
	maxSteps      int64
	assertPaths   int
	samples       []string
	funcs         map[string]struct{}
	solverStats   []SolverStats
	byKind        map[string]*SolverStats
	crossUnknown  int
	crossConfirmed int
	fatal         []string
	spawned       int
	truncated     bool
}

func (ex *Explorer) push(w WorkItem) {
	ex.mu.Lock()
	ex.queue = append(ex.queue, w)
	ex.mu.Unlock()
	ex.cond.Signal()
}

func (ex *Explorer) noteBranchQuery(r Result) {
	ex.mu.Lock()
	ex.branchQueries++
	ex.mu.Unlock()
}
func (ex *Explorer) addUnknownBranch() {
	ex.mu.Lock()
	ex.unknownBranch++
	ex.mu.Unlock()
}
func (ex *Explorer) addUnknownObligation(label string) {
	ex.mu.Lock()
	ex.unknownObl = append(ex.unknownObl, label)
	ex.mu.Unlock()
}
func (ex *Explorer) noteDisagreement(label string, a, b Result) {
	ex.mu.Lock()
	ex.disagreements = append(ex.disagreements, fmt.Sprintf("%s: %v vs %v", label, a, b))
	ex.mu.Unlock()
}
func (ex *Explorer) noteCrossUnknown() {
	ex.mu.Lock()
	ex.crossUnknown++
	ex.mu.Unlock()
}
func (ex *Explorer) noteCrossConfirmed() {
	ex.mu.Lock()
	ex.crossConfirmed++
	ex.mu.Unlock()
}
func (ex *Explorer) noteObligation(decided, holds bool) {
	ex.mu.Lock()
	ex.obligations++
	if decided {
		ex.discharged++
	}
	ex.mu.Unlock()
}

func (ex *Explorer) take() (WorkItem, bool) {
	ex.mu.Lock()
	defer ex.mu.Unlock()
	for {
		if ex.stopped {
			return WorkItem{}, false
		}
		if n := len(ex.queue); n > 0 {
			w := ex.queue[n-1]
			ex.queue = ex.queue[:n-1]
			ex.active++
			return w, true
		}
		if ex.active == 0 {
			ex.cond.Broadcast()
			return WorkItem{}, false
		}
		ex.cond.Wait()
	}
}

func (ex *Explorer) finish(m *Machine, r *PathResult) {
	ex.mu.Lock()
	defer ex.mu.Unlock()
	ex.active--
	ex.paths++
	oc := r.outcome
	if oc == "" {
		oc = "ok"
	}
	ex.outcomes[oc]++
	if r.detail != "" {
		if _, ok := ex.outcomeDetail[oc]; !ok {
			ex.outcomeDetail[oc] = r.detail
		}
	}
	ex.violations = append(ex.violations, r.violations...)
	for k, v := range r.reached {
		if _, ok := ex.reached[k]; !ok {
			ex.reached[k] = v
		}
	}
	ex.totalSteps += r.steps
	if r.steps > ex.maxSteps {
		ex.maxSteps = r.steps
	}
	if r.assertions > 0 {
		ex.assertPaths++
	}
	if r.sample != "" && len(ex.samples) < 8 {
		ex.samples = append(ex.samples, r.sample)
	}
	if ex.cfg.MaxPaths > 0 && ex.paths >= ex.cfg.MaxPaths && (len(ex.queue) > 0 || ex.active > 0) {
		ex.truncated = true
		ex.stopped = true
	}
	if !ex.cfg.Deadline.IsZero() && time.Now().After(ex.cfg.Deadline) && (len(ex.queue) > 0 || ex.active > 0) {
		ex.truncated = true
		ex.stopped = true
	}
	if ex.active == 0 && len(ex.queue) == 0 {
		ex.cond.Broadcast()
	} else {
		ex.cond.Signal()
	}
}

// Run explores all paths of the entry within the configured bounds.
func (ex *Explorer) Run() {
	ex.cond = sync.NewCond(&ex.mu)
	ex.outcomes = map[string]int{}
	ex.outcomeDetail = map[string]string{}
	ex.reached = map[string][]uint64{}
	ex.funcs = map[string]struct{}{}
	ex.queue = []WorkItem{{}}
	var wg sync.WaitGroup
	stopTick := make(chan struct{})
	go func() {
		t := time.NewTicker(15 * time.Second)
		defer t.Stop()
		for {
			select {
			case <-stopTick:
				return
			case <-t.C:
				ex.mu.Lock()
				fmt.Fprintf(os.Stderr, "  … %s: %d paths done, %d queued, %d active, %d obligations, %d violations\n", ex.entry.Func, ex.paths, len(ex.queue), ex.active, ex.obligations, len(ex.violations))
				ex.mu.Unlock()
			}
		}
	}()
	defer close(stopTick)
	for i := 0; i < ex.cfg.Workers; i++ {
		wg.Add(1)
		go func(id int) {
			defer wg.Done()
			ex.worker(id)
		}(i)
	}
	wg.Wait()
}

// MachinePool keeps initialised machines (and their solver processes) alive across
// the cases of one check run.
type MachinePool struct {
	prog     *Program
	machines []*Machine
	cross    string
	timeout  int
	mu       sync.Mutex
}

func (p *MachinePool) get(i int, ex *Explorer) (*Machine, string) {
	p.mu.Lock()
	for len(p.machines) <= i {
		p.machines = append(p.machines, nil)
	}
	m0 := p.machines[i]
	p.mu.Unlock()
	if m := m0; m != nil {
		if m.solver.dead {
			m.solver.Close()
			s, err := NewSolver(primarySolver, m.ts, p.timeout)
			if err != nil {
				return nil, "cannot start solver: " + err.Error()
			}
			m.solver = s
		}
		m.solver.SetTimeout(ex.cfg.QueryTimeout)
		if m.xsolv != nil {
			m.xsolv.SetTimeout(ex.cfg.QueryTimeout)
		}
		return m, ""
	}
	m := NewMachine(p.prog)
	var err error
	m.solver, err = NewSolver(primarySolver, m.ts, p.timeout)
	if err != nil {
		return nil, "cannot start solver: " + err.Error()
	}
	if p.cross != "" {
		m.xsolv, err = NewSolver(p.cross, m.ts, p.timeout)
		if err != nil {
			m.xsolv = nil
		}
	}
	m.solver.SetTimeout(ex.cfg.QueryTimeout)
	if m.xsolv != nil {
		m.xsolv.SetTimeout(ex.cfg.QueryTimeout)
	}
	m.ex = ex
	t0 := time.Now()
	if msg := m.initPackages(); msg != "" {
		return nil, "package initialisation: " + msg
	}
	if i == 0 {
		fmt.Fprintf(os.Stderr, "[init] packages initialised in %.2fs (%d SSA steps)\n", time.Since(t0).Seconds(), m.initSteps)
	}
	p.mu.Lock()
	p.machines[i] = m
	p.mu.Unlock()
	return m, ""
}

func (p *MachinePool) Close() {
	for _, m := range p.machines {
		if m == nil {
			continue
		}
		m.solver.Close()
		if m.xsolv != nil {
			m.xsolv.Close()
		}
		if m.isolv != nil {
			m.isolv.Close()
		}
	}
}

func (ex *Explorer) worker(id int) {
	m, msg := ex.pool.get(id, ex)
	if m == nil {
		ex.addFatal(msg)
		ex.mu.Lock()
		ex.stopped = true
		ex.cond.Broadcast()
		ex.mu.Unlock()
		return
	}
	m.ex = ex
	m.entry = ex.entry
	m.stepLimit = ex.cfg.StepLimit
	m.trackFuncs = true
	m.funcsSeen = map[*ssa.Function]struct{}{}
	m.goroutinesSpawned = 0
	m.solver.Stats = SolverStats{}
	if m.xsolv != nil {
		m.xsolv.Stats = SolverStats{}
	}
	if ex.cfg.IntSolver && m.isolv == nil {
		s, err := NewSolver("cvc5-int", m.ts, ex.cfg.QueryTimeout*4)
		if err == nil {
			m.isolv = s
		}
	}
	if m.isolv != nil {
		m.isolv.Stats = SolverStats{}
	}
	for {
		w, ok := ex.take()
		if !ok {
			break
		}
		r := m.runPath(w)
		ex.finish(m, r)
		if m.fatalErr != nil {
			ex.addFatal(fmt.Sprint(m.fatalErr))
			m.fatalErr = nil
		}
	}
	ex.mu.Lock()
	for f := range m.funcsSeen {
		ex.funcs[f.String()] = struct{}{}
	}
	ex.solverStats = append(ex.solverStats, m.solver.Stats)
	ex.addKind(m.solver.kind, m.solver.Stats)
	if m.xsolv != nil {
		ex.solverStats = append(ex.solverStats, m.xsolv.Stats)
		ex.addKind(m.xsolv.kind+"(cross)", m.xsolv.Stats)
	}
	if m.isolv != nil && ex.cfg.IntSolver {
		ex.solverStats = append(ex.solverStats, m.isolv.Stats)
		ex.addKind(m.isolv.kind, m.isolv.Stats)
	}
	ex.spawned += m.goroutinesSpawned
	ex.mu.Unlock()
}

func (ex *Explorer) addKind(kind string, st SolverStats) {
	if ex.byKind == nil {
		ex.byKind = map[string]*SolverStats{}
	}
	k := ex.byKind[kind]
	if k == nil {
		k = &SolverStats{}
		ex.byKind[kind] = k
	}
	k.Queries += st.Queries
	k.Sat += st.Sat
	k.Unsat += st.Unsat
	k.Unknown += st.Unknown
	k.Errors += st.Errors
	k.Time += st.Time
	if st.MaxQuery > k.MaxQuery {
		k.MaxQuery = st.MaxQuery
	}
}

func (ex *Explorer) addFatal(s string) {
	ex.mu.Lock()
	if len(ex.fatal) < 5 {
		ex.fatal = append(ex.fatal, s)
	}
	ex.mu.Unlock()
}

// runPath executes one path and rolls the heap back afterwards.
func (m *Machine) runPath(w WorkItem) (res *PathResult) {
	res = &PathResult{reached: map[string][]uint64{}}
	m.cur = res
	m.ts.Reset()
	m.prefix = w.prefix
	m.decisions = m.decisions[:0]
	m.model = w.model
	m.ndvals = m.ndvals[:0]
	m.pathConds = m.pathConds[:0]
	m.known = map[int32]bool{}
	m.pinned = map[int32]uint64{}
	m.steps = 0
	m.uncaughtPanic = nil
	m.hostState = map[string]interface{}{}
	m.ptrOrigin = map[*Value][]Value{}
	m.logMsgs = nil
	m.resetSched()
	if !m.concrete {
		m.solver.BeginPath()
		if m.xsolv != nil {
			m.xsolv.BeginPath()
		}
		m.modelValid = true
		if m.model == nil {
			m.model = Model{}
			m.modelValid = len(m.prefix) == 0
		}
	}
	m.journalOn = true
	m.journal = m.journal[:0]
	m.undo = m.undo[:0]
	defer func() {
		m.killAll()
		m.rollback()
		m.journalOn = false
		if !m.concrete {
			m.solver.EndPath()
			if m.xsolv != nil {
				m.xsolv.EndPath()
			}
		}
		res.steps = m.steps
		res.ndec = len(m.decisions)
		m.cur = nil
	}()
	func() {
		defer func() {
			r := recover()
			if r == nil {
				return
			}
			switch r := r.(type) {
			case pathAbort:
			case goPanic:
				msg := m.panicString(r.v)
				m.pathOutcome("panic", msg)
				m.panicViolation(msg)
			case engineError:
				// where: innermost frames of the goroutine that hit it (the deferred reset of
				// G.top runs during unwinding, so the stack is captured by the panic site's
				// caller chain recorded in lastStack)
				m.pathOutcome("unsupported", r.msg)
			case hostCrash:
				m.pathOutcome("engine-crash", r.msg)
				m.fatalErr = r
			default:
				m.pathOutcome("engine-crash", fmt.Sprint(r))
				m.fatalErr = hostCrash{fmt.Sprint(r)}
			}
		}()
		m.call(nil, token.NoPos, m.entry.fn, nil)
	}()
	if m.uncaughtPanic != nil {
		m.panicViolation("goroutine: " + m.panicString(m.uncaughtPanic.v))
	}
	if res.outcome == "step-limit" || res.outcome == "decision-limit" || res.outcome == "deadlock" {
		// candidate non-termination / hang: becomes a violation only if the native
		// replay does not terminate either (otherwise the bound was too small: inconclusive)
		lbl := "nontermination"
		if res.outcome == "deadlock" {
			lbl = "deadlock"
		}
		m.panicViolationLabel(lbl, res.outcome+": "+res.detail)
	}
	if res.outcome == "" {
		res.outcome = "ok"
	}
	if res.sample == "" && !m.concrete && len(m.ndvals) > 0 && m.ensureModelQuiet() {
		vals, _ := m.valuesUnder(m.model)
		res.sample = fmt.Sprintf("%s %v decisions=%d steps=%d", res.outcome, vals, len(m.decisions), m.steps)
	}
	return res
}

func (m *Machine) ensureModelQuiet() bool {
	return m.modelValid
}

// panicViolation reports a Go panic that escaped the harness: "no panic" is part of
// every property checked here.
func (m *Machine) panicViolation(msg string) {
	if m.concrete {
		m.cur.violations = append(m.cur.violations, Violation{Label: "panic", Msg: msg, Entry: m.entry.Func})
		return
	}
	if !m.ensureModel() {
		if !m.lastUnsat {
			m.ex.addUnknownObligation("panic")
		}
		return
	}
	m.ex.noteObligation(true, false)
	m.recordViolation("panic", msg, m.model)
}

func (m *Machine) rollback() {
	for i := len(m.undo) - 1; i >= 0; i-- {
		m.undo[i]()
	}
	m.undo = m.undo[:0]
	for i := len(m.journal) - 1; i >= 0; i-- {
		e := m.journal[i]
		*e.addr = e.old
	}
	m.journal = m.journal[:0]
}

func sortedKeys(m map[string]struct{}) []string {
	var r []string
	for k := range m {
		r = append(r, k)
	}
	sort.Strings(r)
	return r
}

func shortFunc(s string) string {
	return strings.TrimPrefix(s, "github.com/emersion/go-imap/v2/")
}

var _ = os.Stderr

// primarySolver drives exploration (branch feasibility, models, obligations).
// z3 5.1.0 answers the incremental byte-level queries produced here in <1 ms;
// z3 4.8.12 needs ~7 ms per get-value on the same input (measured), so it is used
// as the cross-checking solver for final obligations instead.
const primarySolver = "z3-new"
