package main

// The check driver: load → translator validation → vacuity witnesses → exploration →
// native replay of counterexamples → known findings → evidence → exit status.

import (
	"bufio"
	"bytes"
	"context"
	"crypto/sha1"
	"encoding/json"
	"fmt"
	"math/rand"
	"os"
	"os/exec"
	"path/filepath"
	"runtime/debug"
	"sort"
	"strings"
	"time"
)

type CheckRun struct {
	spec       *CheckSpec
	tier       string
	seed       int64
	workers    int
	verifDir   string
	repoDir    string
	noReplay   bool
	noValidate bool
	noEvidence bool
	verbose    bool
	cross      string
	only       string
	start      time.Time

	prog    *Program
	pool    *MachinePool
	tmpDir  string
	testBin string

	// aggregated
	caseReports []CaseReport
	problems    []string // reasons for exit 2
	violLines   []string
	knownLines  []string
	nViol       int
	validation  ValidationReport
	mismatchesReported int
}

type CaseReport struct {
	Entry        string         `json:"entry"`
	Params       string         `json:"params"`
	Paths        int            `json:"paths"`
	AssertPaths  int            `json:"paths_reaching_assertions"`
	Outcomes     map[string]int `json:"outcomes"`
	Obligations  int            `json:"obligations"`
	Discharged   int            `json:"discharged"`
	BranchQ      int            `json:"branch_queries"`
	UnknownBr    int            `json:"unknown_branches"`
	Steps        int64          `json:"ssa_steps"`
	MaxSteps     int64          `json:"max_steps_per_path"`
	WallS        float64        `json:"wall_s"`
	SolverS      float64        `json:"solver_s"`
	Reached      []string       `json:"reached"`
	Samples      []string       `json:"samples,omitempty"`
	Goroutines   int            `json:"goroutines_spawned,omitempty"`
	Solvers      map[string]string `json:"solvers,omitempty"`
	CrossConfirmed int `json:"obligations_confirmed_by_second_solver"`
	CrossUnknown   int `json:"obligations_second_solver_unknown"`
	violations   []Violation
	funcs        map[string]struct{}
	reachWitness map[string][]uint64
	unknownObl   []string
	disagree     []string
	fatal        []string
	detail       map[string]string
	truncated    bool
	entry        *EntrySpec
	params       map[string]int
}

type ValidationReport struct {
	Vectors     int      `json:"vectors"`
	Agreed      int      `json:"agreed"`
	Mismatches  []string `json:"mismatches,omitempty"`
	TableCases  int      `json:"table_vectors"`
	RandomCases int      `json:"random_vectors"`
	Skipped     string   `json:"skipped,omitempty"`
}

func (r *CheckRun) logf(format string, args ...interface{}) {
	fmt.Fprintf(os.Stderr, format+"\n", args...)
}

func (r *CheckRun) tierOf(e *EntrySpec) *TierSpec {
	t := e.Quick
	if r.tier == "thorough" && e.Thorough != nil {
		t = e.Thorough
	}
	if t == nil {
		t = &TierSpec{}
	}
	return t
}

func (r *CheckRun) Run() int {
	var err error
	r.tmpDir, err = os.MkdirTemp("", "gosym-")
	if err != nil {
		fmt.Fprintln(os.Stderr, err)
		return 2
	}
	defer os.RemoveAll(r.tmpDir)

	top := r.spec
	parts := []*CheckSpec{top}
	if len(top.Parts) > 0 {
		parts = top.Parts
	}
	for i, part := range parts {
		part.Property = top.Property
		if !r.runPart(part, i) {
			break
		}
	}
	r.spec = top
	r.writeEvidence()

	for _, l := range r.knownLines {
		fmt.Println(l)
	}
	for _, l := range r.violLines {
		fmt.Println(l)
	}
	if len(r.violLines) > 0 {
		return 1
	}
	if len(r.problems) > 0 {
		for _, p := range r.problems {
			fmt.Printf("INCONCLUSIVE: property=%s %s\n", r.spec.Property, p)
		}
		return 2
	}
	fmt.Printf("OK property=%s tier=%s cases=%d\n", r.spec.Property, r.tier, len(r.caseReports))
	return 0
}

// runPart loads one harness package and runs its entries (validation, exploration,
// triage with native replay).
func (r *CheckRun) runPart(part *CheckSpec, idx int) bool {
	var err error
	r.spec = part
	r.testBin = ""
	partDir, _ := os.MkdirTemp(r.tmpDir, "part")
	saveTmp := r.tmpDir
	r.tmpDir = partDir
	defer func() { r.tmpDir = saveTmp }()
	r.prog, err = LoadProgram(part, r.verifDir, r.repoDir)
	if err != nil {
		fmt.Fprintln(os.Stderr, "load:", err)
		r.problems = append(r.problems, "load: "+err.Error())
		return false
	}
	// the SSA program is a large, long-lived heap: collect less often while interpreting
	debug.SetGCPercent(400)
	r.logf("[%s] loaded %s in %.1fs (ssa build %.1fs)", r.spec.Property, r.spec.Package, r.prog.loadTime.Seconds(), r.prog.buildTime.Seconds())

	var entries []*EntrySpec
	for _, e := range r.spec.Entries {
		if r.only != "" && e.Func != r.only {
			continue
		}
		if r.tierOf(e).Skip {
			continue
		}
		entries = append(entries, e)
	}
	if len(entries) == 0 {
		return true
	}

	if !r.noValidate {
		r.validate(entries)
	}
	r.pool = &MachinePool{prog: r.prog, cross: r.cross, timeout: 20000}
	defer r.pool.Close()

	first := len(r.caseReports)
	for _, e := range entries {
		t := r.tierOf(e)
		for _, params := range expandGrid(t) {
			cr := r.explore(e, t, params)
			r.caseReports = append(r.caseReports, cr)
			r.logf("[%s] %s{%s}: paths=%d outcomes=%v obligations=%d/%d viol=%d branchq=%d steps=%d wall=%.1fs solver=%.1fs",
				r.spec.Property, e.Func, cr.Params, cr.Paths, cr.Outcomes, cr.Discharged, cr.Obligations, len(cr.violations), cr.BranchQ, cr.Steps, cr.WallS, cr.SolverS)
			for k, v := range cr.Solvers {
				r.logf("    solver %s: %s", k, v)
			}
			for k, v := range cr.detail {
				if k != "ok" && k != "assume-dead" {
					r.logf("    %s: %s", k, firstLine(v, 400))
				}
			}
		}
	}
	r.triage(first)
	return true
}

func firstLine(s string, n int) string {
	if i := strings.IndexByte(s, '\n'); i >= 0 && i < n {
		// keep a few lines for crashes
		if len(s) > n {
			return s[:n]
		}
		return s
	}
	if len(s) > n {
		return s[:n]
	}
	return s
}

func (r *CheckRun) explore(e *EntrySpec, t *TierSpec, params map[string]int) CaseReport {
	e.params = params
	cfg := ExploreConfig{Workers: r.workers, StepLimit: t.StepLimit, MaxPaths: t.MaxPaths, MaxDecisions: t.MaxDecisions,
		QueryTimeout: t.TimeoutMs, CrossCheck: r.cross, IntSolver: e.IntSolver, NoCross: e.NoCross}
	if cfg.StepLimit == 0 {
		cfg.StepLimit = 2_000_000
	}
	if cfg.MaxDecisions == 0 {
		cfg.MaxDecisions = 4000
	}
	if cfg.QueryTimeout == 0 {
		cfg.QueryTimeout = 20000
	}
	ex := &Explorer{prog: r.prog, cfg: cfg, entry: e, pool: r.pool}
	t0 := time.Now()
	ex.Run()
	cr := CaseReport{Entry: e.Func, Params: paramString(params), Paths: ex.paths, AssertPaths: ex.assertPaths, Outcomes: ex.outcomes,
		Obligations: ex.obligations, Discharged: ex.discharged, BranchQ: ex.branchQueries, UnknownBr: ex.unknownBranch,
		Steps: ex.totalSteps, MaxSteps: ex.maxSteps, WallS: time.Since(t0).Seconds(), Samples: ex.samples, Goroutines: ex.spawned,
		violations: ex.violations, funcs: ex.funcs, reachWitness: ex.reached, unknownObl: ex.unknownObl, disagree: ex.disagreements,
		fatal: ex.fatal, detail: ex.outcomeDetail, truncated: ex.truncated, entry: e, params: params}
	for _, st := range ex.solverStats {
		cr.SolverS += st.Time.Seconds()
	}
	cr.CrossConfirmed, cr.CrossUnknown = ex.crossConfirmed, ex.crossUnknown
	cr.Solvers = map[string]string{}
	for k, st := range ex.byKind {
		cr.Solvers[k] = fmt.Sprintf("queries=%d sat=%d unsat=%d unknown=%d errors=%d time=%.1fs max=%.2fs", st.Queries, st.Sat, st.Unsat, st.Unknown, st.Errors, st.Time.Seconds(), st.MaxQuery.Seconds())
	}
	for k := range ex.reached {
		cr.Reached = append(cr.Reached, k)
	}
	sort.Strings(cr.Reached)
	return cr
}

// ---------------------------------------------------------------------------
// triage: vacuity, bounds, replay, known findings

type knownFinding struct {
	property, entry, label, text string
}

func (r *CheckRun) loadKnown() []knownFinding {
	var out []knownFinding
	f, err := os.Open(filepath.Join(r.verifDir, "known_findings.txt"))
	if err != nil {
		return nil
	}
	defer f.Close()
	sc := bufio.NewScanner(f)
	for sc.Scan() {
		line := strings.TrimSpace(sc.Text())
		if !strings.HasPrefix(line, "known:") {
			continue
		}
		kf := knownFinding{}
		rest := strings.TrimSpace(strings.TrimPrefix(line, "known:"))
		fields := strings.Fields(rest)
		var text []string
		for _, f := range fields {
			switch {
			case strings.HasPrefix(f, "property=") && kf.property == "":
				kf.property = strings.TrimPrefix(f, "property=")
			case strings.HasPrefix(f, "entry=") && kf.entry == "":
				kf.entry = strings.TrimPrefix(f, "entry=")
			case strings.HasPrefix(f, "label=") && kf.label == "":
				kf.label = strings.TrimPrefix(f, "label=")
			default:
				text = append(text, f)
			}
		}
		kf.text = strings.Join(text, " ")
		out = append(out, kf)
	}
	return out
}

func (r *CheckRun) triage(first int) {
	known := r.loadKnown()
	isKnown := func(entry, label string) *knownFinding {
		for i := range known {
			k := &known[i]
			if k.property == r.spec.Property && k.label == label && (k.entry == "" || k.entry == entry) {
				return k
			}
		}
		return nil
	}
	seenKnown := map[string]bool{}
	for i := first; i < len(r.caseReports); i++ {
		cr := &r.caseReports[i]
		tag := fmt.Sprintf("%s{%s}", cr.Entry, cr.Params)
		for _, f := range cr.fatal {
			r.problems = append(r.problems, tag+": engine: "+firstLine(f, 2000))
		}
		for oc, n := range cr.Outcomes {
			switch oc {
			case "unsupported", "engine-crash", "depth-limit":
				r.problems = append(r.problems, fmt.Sprintf("%s: %d path(s) ended %s: %s", tag, n, oc, firstLine(cr.detail[oc], 300)))
			}
		}
		if cr.truncated {
			r.problems = append(r.problems, tag+": exploration truncated (path or time budget)")
		}
		if len(cr.unknownObl) > 0 {
			r.problems = append(r.problems, fmt.Sprintf("%s: %d obligation(s) undecided (solver unknown): %v", tag, len(cr.unknownObl), uniq(cr.unknownObl)))
		}
		if len(cr.disagree) > 0 {
			r.problems = append(r.problems, fmt.Sprintf("%s: solvers disagree: %v", tag, cr.disagree))
		}
		// vacuity witnesses
		for _, lbl := range cr.entry.Reach {
			if _, ok := cr.reachWitness[lbl]; !ok && len(cr.fatal) == 0 {
				if skipReach(lbl, cr.params) {
					continue
				}
				r.problems = append(r.problems, fmt.Sprintf("%s: vacuity witness %q not reachable", tag, lbl))
			}
		}
		// violations grouped by label
		groups := map[string][]Violation{}
		var labels []string
		for _, v := range cr.violations {
			if _, ok := groups[v.Label]; !ok {
				labels = append(labels, v.Label)
			}
			groups[v.Label] = append(groups[v.Label], v)
		}
		// step-limit / deadlock paths are violation candidates too (non-termination)
		sort.Strings(labels)
		for _, lbl := range labels {
			vs := groups[lbl]
			reproduced := false
			var path string
			var lastOutcome string
			tries := 0
			for _, v := range vs {
				if tries >= 4 {
					break
				}
				tries++
				if r.noReplay {
					reproduced = true
					path = r.saveReplay(cr, v)
					break
				}
				out, p := r.replayNative(cr, v)
				lastOutcome = out
				if replayConfirms(out, v) {
					reproduced = true
					path = p
					break
				}
			}
			if !reproduced {
				r.problems = append(r.problems, fmt.Sprintf("%s: ENGINE-MISMATCH label=%s: solver counterexample did not reproduce natively (native outcome: %s)", tag, lbl, lastOutcome))
				continue
			}
			r.nViol++
			if k := isKnown(cr.Entry, lbl); k != nil {
				key := k.entry + "/" + k.label
				if !seenKnown[key] {
					seenKnown[key] = true
					r.knownLines = append(r.knownLines, fmt.Sprintf("KNOWN-FINDING: property=%s entry=%s label=%s %s", r.spec.Property, cr.Entry, lbl, k.text))
				}
				continue
			}
			r.violLines = append(r.violLines, fmt.Sprintf("VIOLATION property=%s replay=%s entry=%s label=%s params=%s count=%d", r.spec.Property, path, cr.Entry, lbl, cr.Params, len(vs)))
		}

	}
	if len(r.validation.Mismatches) > r.mismatchesReported {
		r.problems = append(r.problems, fmt.Sprintf("translator validation: %d mismatch(es): %s", len(r.validation.Mismatches), r.validation.Mismatches[r.mismatchesReported]))
		r.mismatchesReported = len(r.validation.Mismatches)
	}
}

// skipReach: a witness label of the form "name@p>=k" is only required when parameter p >= k.
func skipReach(lbl string, params map[string]int) bool {
	i := strings.IndexByte(lbl, '@')
	if i < 0 {
		return false
	}
	cond := lbl[i+1:]
	j := strings.Index(cond, ">=")
	if j < 0 {
		return false
	}
	var k int
	fmt.Sscanf(cond[j+2:], "%d", &k)
	return params[cond[:j]] < k
}

func uniq(s []string) []string {
	m := map[string]bool{}
	var out []string
	for _, x := range s {
		if !m[x] {
			m[x] = true
			out = append(out, x)
		}
	}
	sort.Strings(out)
	return out
}

func replayConfirms(out string, v Violation) bool {
	switch {
	case v.Label == "panic" || v.Label == "fatal":
		return strings.HasPrefix(out, "panic") || strings.HasPrefix(out, "crash")
	case v.Label == "nontermination" || v.Label == "deadlock":
		return out == "timeout" || strings.HasPrefix(out, "crash")
	default:
		return out == "violation "+v.Label
	}
}

func caseFileText(entry string, params map[string]int, vals []uint64) string {
	var sb strings.Builder
	fmt.Fprintf(&sb, "case %s\n", entry)
	var keys []string
	for k := range params {
		keys = append(keys, k)
	}
	sort.Strings(keys)
	for _, k := range keys {
		fmt.Fprintf(&sb, "param %s %d\n", k, params[k])
	}
	for _, v := range vals {
		fmt.Fprintf(&sb, "val %d\n", v)
	}
	return sb.String()
}

func (r *CheckRun) saveReplay(cr *CaseReport, v Violation) string {
	text := fmt.Sprintf("# property=%s entry=%s label=%s params=%s\n# %s\n", r.spec.Property, cr.Entry, v.Label, cr.Params, v.Msg) +
		caseFileText(cr.Entry, cr.params, v.Values)
	h := sha1.Sum([]byte(text))
	dir := filepath.Join(r.verifDir, "replays")
	os.MkdirAll(dir, 0o755)
	lbl := strings.Map(func(c rune) rune {
		if c >= 'a' && c <= 'z' || c >= 'A' && c <= 'Z' || c >= '0' && c <= '9' || c == '-' || c == '_' {
			return c
		}
		return '_'
	}, v.Label)
	if len(lbl) > 40 {
		lbl = lbl[:40]
	}
	p := filepath.Join(dir, fmt.Sprintf("%s-%s-%s-%x.txt", r.spec.Property, cr.Entry, lbl, h[:4]))
	os.WriteFile(p, []byte(text), 0o644)
	return p
}

// buildTestBinary compiles the harness package's test binary with the overlay.
func (r *CheckRun) buildTestBinary() error {
	if r.testBin != "" {
		return nil
	}
	pkgDir := filepath.Join(r.repoDir, r.spec.Package)
	testFile := filepath.Join(r.tmpDir, "zz_verif_replay_test.go")
	src := fmt.Sprintf("package %s\n\nimport (\n\t\"testing\"\n\tnd %q\n)\n\nfunc TestVerifReplay(t *testing.T) {\n\tif !nd.RunReplay() {\n\t\tt.Fatal(\"replay failed\")\n\t}\n}\n",
		r.prog.harnessPkg.Pkg.Name(), ndPath)
	if err := os.WriteFile(testFile, []byte(src), 0o644); err != nil {
		return err
	}
	repl := map[string]string{filepath.Join(pkgDir, "zz_verif_replay_test.go"): testFile}
	for dst, srcp := range r.prog.overlayFiles {
		repl[dst] = srcp
	}
	ov, _ := json.Marshal(map[string]interface{}{"Replace": repl})
	ovPath := filepath.Join(r.tmpDir, "overlay.json")
	os.WriteFile(ovPath, ov, 0o644)
	bin := filepath.Join(r.tmpDir, "replay.test")
	cmd := exec.Command("go", "test", "-c", "-vet=off", "-overlay", ovPath, "-o", bin, "./"+r.spec.Package)
	cmd.Dir = r.repoDir
	cmd.Env = append(os.Environ(), "GOFLAGS=-mod=mod", "GOPROXY=off", "GOSUMDB=off", "GOTOOLCHAIN=local")
	out, err := cmd.CombinedOutput()
	if err != nil {
		return fmt.Errorf("go test -c: %v\n%s", err, out)
	}
	r.testBin = bin
	return nil
}

type nativeCase struct {
	outcome string
	notes   []string
	reached []string
}

// runNative runs the compiled harness on a case file.
func (r *CheckRun) runNative(caseFile string, timeout time.Duration) ([]nativeCase, string, error) {
	if err := r.buildTestBinary(); err != nil {
		return nil, "", err
	}
	ctx, cancel := context.WithTimeout(context.Background(), timeout)
	defer cancel()
	cmd := exec.CommandContext(ctx, "/bin/sh", "-c", fmt.Sprintf("ulimit -v 8000000; exec %s -test.run '^TestVerifReplay$' -test.v -test.timeout %ds", r.testBin, int(timeout.Seconds())+5))
	cmd.Dir = filepath.Join(r.repoDir, r.spec.Package)
	cmd.Env = append(os.Environ(), "VERIF_REPLAY="+caseFile, "GOMEMLIMIT=6GiB")
	var buf bytes.Buffer
	cmd.Stdout = &buf
	cmd.Stderr = &buf
	err := cmd.Run()
	var cases []nativeCase
	status := "done"
	for _, line := range strings.Split(buf.String(), "\n") {
		switch {
		case strings.HasPrefix(line, "VERIF-CASE "):
			cases = append(cases, nativeCase{outcome: "incomplete"})
		case strings.HasPrefix(line, "VERIF-NOTE ") && len(cases) > 0:
			c := &cases[len(cases)-1]
			c.notes = append(c.notes, strings.TrimPrefix(line, "VERIF-NOTE "))
		case strings.HasPrefix(line, "VERIF-REACH ") && len(cases) > 0:
			c := &cases[len(cases)-1]
			c.reached = append(c.reached, strings.TrimPrefix(line, "VERIF-REACH "))
		case strings.HasPrefix(line, "VERIF-OUTCOME ") && len(cases) > 0:
			cases[len(cases)-1].outcome = strings.TrimPrefix(line, "VERIF-OUTCOME ")
		}
	}
	if ctx.Err() != nil {
		status = "timeout"
	} else if err != nil && !strings.Contains(buf.String(), "VERIF-DONE") {
		status = "crash: " + lastLines(buf.String(), 12)
	}
	return cases, status, nil
}

func lastLines(s string, n int) string {
	lines := strings.Split(strings.TrimSpace(s), "\n")
	// prefer the line that names the crash
	for _, l := range lines {
		if strings.HasPrefix(l, "panic:") || strings.HasPrefix(l, "fatal error:") || strings.HasPrefix(l, "runtime:") {
			return l
		}
	}
	if len(lines) > n {
		lines = lines[len(lines)-n:]
	}
	return strings.Join(lines, " | ")
}

func (r *CheckRun) replayNative(cr *CaseReport, v Violation) (string, string) {
	path := r.saveReplay(cr, v)
	cases, status, err := r.runNative(path, 60*time.Second)
	if err != nil {
		r.problems = append(r.problems, "native replay build failed: "+firstLine(err.Error(), 600))
		return "build-error", path
	}
	out := "none"
	if len(cases) > 0 {
		out = cases[0].outcome
	}
	if status == "timeout" {
		out = "timeout"
	} else if strings.HasPrefix(status, "crash") && (out == "incomplete" || out == "none") {
		out = status
	}
	if !replayConfirms(out, v) {
		if os.Getenv("GOSYM_KEEP") != "" {
			os.Rename(path, path+".mismatch")
		} else {
			os.Remove(path)
		}
	}
	return out, path
}

// ---------------------------------------------------------------------------
// translator validation

const specialBytes = "&-*%/.,:$ \\\"(){}[]+AaZz09\r\n\x00\x7f\x80\xc3\xa9\xe2\x82\xac\xf0\x9f\x98\x80"

func (r *CheckRun) validate(entries []*EntrySpec) {
	rng := rand.New(rand.NewSource(r.seed))
	type vcase struct {
		entry  *EntrySpec
		params map[string]int
		vals   []uint64
		table  bool
	}
	var cases []vcase
	for _, e := range entries {
		t := r.tierOf(e)
		grid := expandGrid(t)
		for _, vec := range e.Vectors {
			for _, p := range grid {
				cases = append(cases, vcase{e, p, vec, true})
			}
		}
		if e.NoRandom {
			continue
		}
		nrand := 200 / len(grid)
		if nrand < 8 {
			nrand = 8
		}
		if nrand > 60 {
			nrand = 60
		}
		for _, p := range grid {
			for i := 0; i < nrand; i++ {
				vals := make([]uint64, 48)
				for j := range vals {
					switch rng.Intn(6) {
					case 0:
						vals[j] = uint64(rng.Intn(4))
					case 1:
						vals[j] = uint64(rng.Intn(256))
					case 2:
						vals[j] = uint64(specialBytes[rng.Intn(len(specialBytes))])
					case 3:
						vals[j] = rng.Uint64()
					case 4:
						vals[j] = uint64(0xffffffff) - uint64(rng.Intn(3))
					default:
						vals[j] = uint64(rng.Intn(1 << 16))
					}
				}
				cases = append(cases, vcase{e, p, vals, false})
			}
		}
	}
	if len(cases) == 0 {
		r.validation.Skipped = "no vectors configured"
		return
	}
	// engine, concrete mode
	m := NewMachine(r.prog)
	m.ex = &Explorer{prog: r.prog, cfg: ExploreConfig{MaxDecisions: 1 << 30}}
	m.ex.outcomes = map[string]int{}
	if msg := m.initPackages(); msg != "" {
		r.problems = append(r.problems, "package initialisation (validation): "+firstLine(msg, 2000))
		return
	}
	type engRes struct {
		outcome string
		notes   []string
	}
	eng := make([]engRes, len(cases))
	var file strings.Builder
	for i, c := range cases {
		c.entry.params = c.params
		m.entry = c.entry
		m.concrete = true
		m.vec = c.vals
		m.vecPos = 0
		m.stepLimit = 20_000_000
		res := m.runPath(WorkItem{})
		m.concrete = false
		oc := res.outcome
		if len(res.violations) > 0 {
			oc = "violation " + res.violations[0].Label
			if res.violations[0].Label == "panic" {
				oc = "panic"
			}
		}
		eng[i] = engRes{oc, res.notes}
		if res.outcome == "unsupported" || res.outcome == "engine-crash" {
			r.validation.Mismatches = append(r.validation.Mismatches, fmt.Sprintf("%s{%s}: engine %s: %s", c.entry.Func, paramString(c.params), res.outcome, firstLine(res.detail, 1500)))
		}
		file.WriteString(caseFileText(c.entry.Func, c.params, c.vals))
	}
	if len(r.validation.Mismatches) > 0 {
		return
	}
	caseFile := filepath.Join(r.tmpDir, "validate.txt")
	os.WriteFile(caseFile, []byte(file.String()), 0o644)
	nat, status, err := r.runNative(caseFile, 180*time.Second)
	if err != nil {
		r.problems = append(r.problems, "translator validation: native build failed: "+firstLine(err.Error(), 1500))
		return
	}
	if status != "done" {
		r.problems = append(r.problems, "translator validation: native run "+status)
	}
	for i, c := range cases {
		r.validation.Vectors++
		if c.table {
			r.validation.TableCases++
		} else {
			r.validation.RandomCases++
		}
		if i >= len(nat) {
			r.validation.Mismatches = append(r.validation.Mismatches, fmt.Sprintf("case %d missing natively", i))
			continue
		}
		no := nat[i].outcome
		if strings.HasPrefix(no, "panic") {
			no = "panic"
		}
		eo := eng[i].outcome
		if eo == "assume-failed" || eo == "assume-dead" {
			eo = "assume-failed"
		}
		if no != eo || strings.Join(nat[i].notes, "\n") != strings.Join(eng[i].notes, "\n") {
			r.validation.Mismatches = append(r.validation.Mismatches, fmt.Sprintf("%s{%s} vec=%v: native outcome=%q notes=%v; engine outcome=%q notes=%v",
				c.entry.Func, paramString(c.params), head8(c.vals), nat[i].outcome, nat[i].notes, eng[i].outcome, eng[i].notes))
			continue
		}
		r.validation.Agreed++
	}
	r.logf("[%s] translator validation: %d/%d vectors agree (table=%d random=%d)", r.spec.Property, r.validation.Agreed, r.validation.Vectors, r.validation.TableCases, r.validation.RandomCases)
}

func head8(v []uint64) []uint64 {
	if len(v) > 8 {
		return v[:8]
	}
	return v
}

// ---------------------------------------------------------------------------
// evidence

func (r *CheckRun) writeEvidence() {
	if r.noEvidence {
		return
	}
	var paths, assertPaths, obligations, discharged, branchQ int
	var steps int64
	var solverS float64
	funcs := map[string]struct{}{}
	var samples []interface{}
	outcomes := map[string]int{}
	for _, cr := range r.caseReports {
		paths += cr.Paths
		assertPaths += cr.AssertPaths
		obligations += cr.Obligations
		discharged += cr.Discharged
		branchQ += cr.BranchQ
		steps += cr.Steps
		solverS += cr.SolverS
		for f := range cr.funcs {
			funcs[f] = struct{}{}
		}
		for k, v := range cr.Outcomes {
			outcomes[k] += v
		}
		if len(samples) < 12 {
			for _, s := range cr.Samples {
				if len(samples) < 12 {
					samples = append(samples, map[string]interface{}{"entry": cr.Entry, "params": cr.Params, "path": s})
				}
			}
		}
		for lbl, w := range cr.reachWitness {
			if len(samples) < 24 && w != nil {
				samples = append(samples, map[string]interface{}{"entry": cr.Entry, "params": cr.Params, "reach_witness": lbl, "nd_values": w})
			}
		}
	}
	var fl []string
	for f := range funcs {
		if strings.Contains(f, "zzverif") {
			continue
		}
		fl = append(fl, shortFunc(f))
	}
	sort.Strings(fl)
	repoFuncs := 0
	for _, f := range fl {
		if !strings.Contains(f, "/") || strings.HasPrefix(f, "imap") || strings.HasPrefix(f, "internal") || strings.HasPrefix(f, "(") {
			repoFuncs++
		}
	}
	if len(samples) == 0 {
		samples = append(samples, "no path explored")
	}
	explanation := fmt.Sprintf("bounded symbolic execution of the real go/ssa form of /repo (regenerated from the working tree on this run): %d paths explored, %d reached at least one property assertion; %d solver obligations (negated assertions under the path condition) of which %d decided; %d branch-feasibility queries; verdict per path by z3 5.1.0 (z3-new) with unsat final obligations cross-checked by %s. Bounds: %s. Holds only within these bounds; nothing is claimed outside them.",
		paths, assertPaths, obligations, discharged, branchQ, r.cross, r.spec.Bounds)
	cov := map[string]interface{}{
		"explanation":         explanation,
		"evaluations":         paths,
		"distinct_nontrivial": assertPaths,
		"rule":                "one evaluation = one feasible execution path of a harness entry under a distinct decision prefix (a class of inputs described by its path condition); non-trivial = the path reached at least one nd.Assert obligation",
		"obligations":         obligations,
		"discharged":          discharged,
		"branch_queries":      branchQ,
		"ssa_steps":           steps,
		"solver_time_s":       solverS,
		"samples":             samples,
		"functions_encoded":   fl,
		"functions_count":     len(fl),
		"cases":               r.caseReports,
		"path_outcomes":       outcomes,
		"bounds":              r.spec.Bounds,
		"outside_claim":       r.spec.Outside,
		"stubs":               r.spec.Stubs,
		"translator_validation": r.validation,
		"inconclusive":        r.problems,
		"known_findings":      r.knownLines,
		"violation_lines":     r.violLines,
		"solvers":             []string{"z3 5.1.0 (z3-new -in, push/pop)", r.cross + " (cross-check of unsat final obligations)"},
		"exhaustive":          false,
	}
	ev := map[string]interface{}{
		"property_id": r.spec.Property,
		"tier":        r.tier,
		"seed":        r.seed,
		"level":       "other",
		"coverage":    cov,
		"assumptions": append(append([]string{}, r.spec.Assumptions...), "engine trusted base: gosym SSA interpreter + intercepts listed under coverage.stubs; translator validated on the vectors counted in coverage.translator_validation"),
		"wall_s":      time.Since(r.start).Seconds(),
		"violations":  len(r.violLines),
	}
	b, _ := json.MarshalIndent(ev, "", " ")
	dir := filepath.Join(r.verifDir, "evidence")
	os.MkdirAll(dir, 0o755)
	os.WriteFile(filepath.Join(dir, r.spec.Property+".json"), b, 0o644)
}
