package main

import (
	"fmt"
	"go/constant"
	"go/token"
	"go/types"
	"math"

	"golang.org/x/tools/go/ssa"
)

func constBool(c *ssa.Const) bool     { return constant.BoolVal(c.Value) }
func constString(c *ssa.Const) string { return constant.StringVal(c.Value) }
func constUint64(c *ssa.Const) uint64 {
	v := constant.ToInt(c.Value)
	if i, ok := constant.Int64Val(v); ok {
		return uint64(i)
	}
	if u, ok := constant.Uint64Val(v); ok {
		return u
	}
	panic(fmt.Sprintf("constUint64: %v", c))
}

// term returns x as a term of width w.
func (m *Machine) term(x Int, w uint8) *Term {
	if x.T != nil {
		if x.T.w != w {
			panic(fmt.Sprintf("term width %d, expected %d", x.T.w, w))
		}
		return x.T
	}
	return m.ts.Const(w, x.C)
}

func (m *Machine) bterm(b Bool) *Term {
	if b.T != nil {
		return b.T
	}
	return m.ts.Bool(b.C)
}

func mkInt(t *Term) Int {
	if t.op == OpConst {
		return Int{C: t.k}
	}
	return Int{T: t}
}

func mkBool(t *Term) Bool {
	if t.op == OpConst {
		return Bool{C: t.k == 1}
	}
	return Bool{T: t}
}

func (m *Machine) branch(b Bool) bool {
	if b.T == nil {
		return b.C
	}
	return m.decide(b.T)
}

// concInt forces a concrete value for x (forking over its feasible values).
func (m *Machine) concInt(x Int, w uint8, what string) uint64 {
	if x.T == nil {
		return x.C
	}
	// a term concretised earlier on this path keeps its value: answering from the record
	// takes no decision, so it must not look at (or consume) the replay prefix either
	if v, ok := m.pinned[x.T.id]; ok {
		return v
	}
	if m.modelValid {
		// already forced to one value by the path condition (e.g. an assumed equality)?
		v := m.ts.Eval(x.T, m.model)
		if kv, ok := m.known[m.ts.Eq(x.T, m.ts.Const(x.T.w, v)).id]; ok && kv {
			m.pinned[x.T.id] = v
			return v
		}
	}
	for n := 0; ; n++ {
		if n > 4096 {
			unsupported("concretisation of %s enumerates more than 4096 values", what)
		}
		v := m.suggest(x.T)
		if m.decideVal(m.ts.Eq(x.T, m.ts.Const(x.T.w, v)), v) {
			m.pinned[x.T.id] = v
			return v
		}
	}
}

func (m *Machine) concBool(b Bool) bool { return m.branch(b) }

// ---------------------------------------------------------------------------

func (m *Machine) unop(fr *frame, instr *ssa.UnOp, x Value) Value {
	switch instr.Op {
	case token.MUL: // load
		switch p := x.(type) {
		case *Value:
			return m.load(p)
		case SymElem:
			return m.symSelectW(p.A, p.Idx, p.W)
		}
		panic(fmt.Sprintf("load from %T", x))
	case token.ARROW:
		return m.chanRecv(fr, x.(*ChanV), instr.CommaOk)
	case token.SUB:
		switch x := x.(type) {
		case Int:
			w, _ := intWidth(instr.X.Type())
			if x.T == nil {
				return Int{C: (-x.C) & mask(w)}
			}
			return mkInt(m.ts.Neg(x.T))
		case Float:
			return -x
		case Complex:
			return -x
		}
	case token.NOT:
		b := x.(Bool)
		if b.T == nil {
			return Bool{C: !b.C}
		}
		return mkBool(m.ts.Not(b.T))
	case token.XOR:
		xi := x.(Int)
		w, _ := intWidth(instr.X.Type())
		if xi.T == nil {
			return Int{C: (^xi.C) & mask(w)}
		}
		return mkInt(m.ts.BNot(xi.T))
	}
	panic(fmt.Sprintf("unop %v on %T", instr.Op, x))
}

var cmpOps = map[token.Token]bool{token.EQL: true, token.NEQ: true, token.LSS: true, token.LEQ: true, token.GTR: true, token.GEQ: true}

func (m *Machine) binop(op token.Token, t types.Type, x, y Value) Value {
	switch xv := x.(type) {
	case Int:
		yv, ok := y.(Int)
		if !ok {
			panic(fmt.Sprintf("binop %v: Int vs %T", op, y))
		}
		return m.intBinop(op, t, xv, yv, nil)
	case Bool:
		yv := y.(Bool)
		switch op {
		case token.EQL:
			return m.boolEq(xv, yv)
		case token.NEQ:
			return m.boolNot(m.boolEq(xv, yv))
		case token.AND, token.LAND:
			return mkBool(m.ts.And(m.bterm(xv), m.bterm(yv)))
		case token.OR, token.LOR:
			return mkBool(m.ts.Or(m.bterm(xv), m.bterm(yv)))
		}
	case Str:
		yv := y.(Str)
		switch op {
		case token.ADD:
			return concatStr(xv, yv)
		case token.EQL:
			return m.strEq(xv, yv)
		case token.NEQ:
			return m.boolNot(m.strEq(xv, yv))
		case token.LSS:
			return m.strLess(xv, yv, false)
		case token.LEQ:
			return m.strLess(xv, yv, true)
		case token.GTR:
			return m.strLess(yv, xv, false)
		case token.GEQ:
			return m.strLess(yv, xv, true)
		}
	case Float:
		yv := y.(Float)
		switch op {
		case token.ADD:
			return xv + yv
		case token.SUB:
			return xv - yv
		case token.MUL:
			return xv * yv
		case token.QUO:
			return xv / yv
		case token.EQL:
			return Bool{C: xv == yv}
		case token.NEQ:
			return Bool{C: xv != yv}
		case token.LSS:
			return Bool{C: xv < yv}
		case token.LEQ:
			return Bool{C: xv <= yv}
		case token.GTR:
			return Bool{C: xv > yv}
		case token.GEQ:
			return Bool{C: xv >= yv}
		}
	}
	switch op {
	case token.EQL:
		return m.equals(x, y)
	case token.NEQ:
		return m.boolNot(m.equals(x, y))
	}
	panic(fmt.Sprintf("binop %v on %T, %T", op, x, y))
}

func (m *Machine) boolNot(b Bool) Bool {
	if b.T == nil {
		return Bool{C: !b.C}
	}
	return mkBool(m.ts.Not(b.T))
}

func (m *Machine) boolEq(x, y Bool) Bool {
	if x.T == nil && y.T == nil {
		return Bool{C: x.C == y.C}
	}
	return mkBool(m.ts.Eq(m.bterm(x), m.bterm(y)))
}

func (m *Machine) boolAnd(x, y Bool) Bool {
	return mkBool(m.ts.And(m.bterm(x), m.bterm(y)))
}

func (m *Machine) boolOr(x, y Bool) Bool {
	return mkBool(m.ts.Or(m.bterm(x), m.bterm(y)))
}

func (m *Machine) intBinop(op token.Token, t types.Type, x, y Int, yt types.Type) Value {
	w, signed := intWidth(t)
	if op == token.SHL || op == token.SHR {
		return m.shift(op, w, signed, x, y)
	}
	if x.T == nil && y.T == nil {
		a, b := x.C, y.C
		mk := mask(w)
		switch op {
		case token.ADD:
			return Int{C: (a + b) & mk}
		case token.SUB:
			return Int{C: (a - b) & mk}
		case token.MUL:
			return Int{C: (a * b) & mk}
		case token.QUO:
			if b == 0 {
				m.panicRuntime("integer divide by zero")
			}
			if signed {
				return Int{C: foldBin(OpSDiv, w, a, b)}
			}
			return Int{C: a / b}
		case token.REM:
			if b == 0 {
				m.panicRuntime("integer divide by zero")
			}
			if signed {
				return Int{C: foldBin(OpSRem, w, a, b)}
			}
			return Int{C: a % b}
		case token.AND:
			return Int{C: a & b}
		case token.OR:
			return Int{C: a | b}
		case token.XOR:
			return Int{C: a ^ b}
		case token.AND_NOT:
			return Int{C: a &^ b}
		case token.EQL:
			return Bool{C: a == b}
		case token.NEQ:
			return Bool{C: a != b}
		}
		if cmpOps[op] {
			var lt, eq bool
			eq = a == b
			if signed {
				lt = sext64(a, w) < sext64(b, w)
			} else {
				lt = a < b
			}
			switch op {
			case token.LSS:
				return Bool{C: lt}
			case token.LEQ:
				return Bool{C: lt || eq}
			case token.GTR:
				return Bool{C: !lt && !eq}
			case token.GEQ:
				return Bool{C: !lt}
			}
		}
		panic(fmt.Sprintf("intBinop %v", op))
	}
	a, b := m.term(x, w), m.term(y, w)
	ts := m.ts
	switch op {
	case token.ADD:
		return mkInt(ts.Bin(OpAdd, a, b))
	case token.SUB:
		return mkInt(ts.Bin(OpSub, a, b))
	case token.MUL:
		return mkInt(ts.Bin(OpMul, a, b))
	case token.QUO, token.REM:
		if !m.branch(mkBool(ts.Not(ts.Eq(b, ts.Const(w, 0))))) {
			m.panicRuntime("integer divide by zero")
		}
		var o Op
		switch {
		case op == token.QUO && signed:
			o = OpSDiv
		case op == token.QUO:
			o = OpUDiv
		case signed:
			o = OpSRem
		default:
			o = OpURem
		}
		return mkInt(ts.Bin(o, a, b))
	case token.AND:
		return mkInt(ts.Bin(OpBAnd, a, b))
	case token.OR:
		return mkInt(ts.Bin(OpBOr, a, b))
	case token.XOR:
		return mkInt(ts.Bin(OpBXor, a, b))
	case token.AND_NOT:
		return mkInt(ts.Bin(OpBAnd, a, ts.BNot(b)))
	case token.EQL:
		return mkBool(ts.Eq(a, b))
	case token.NEQ:
		return mkBool(ts.Not(ts.Eq(a, b)))
	case token.LSS:
		if signed {
			return mkBool(ts.Cmp(OpSlt, a, b))
		}
		return mkBool(ts.Cmp(OpUlt, a, b))
	case token.LEQ:
		if signed {
			return mkBool(ts.Cmp(OpSle, a, b))
		}
		return mkBool(ts.Cmp(OpUle, a, b))
	case token.GTR:
		if signed {
			return mkBool(ts.Cmp(OpSlt, b, a))
		}
		return mkBool(ts.Cmp(OpUlt, b, a))
	case token.GEQ:
		if signed {
			return mkBool(ts.Cmp(OpSle, b, a))
		}
		return mkBool(ts.Cmp(OpUle, b, a))
	}
	panic(fmt.Sprintf("intBinop %v", op))
}

// shift implements Go shift semantics. The shift count arrives as an Int whose
// width is unknown here (ssa does not convert it); symbolic counts carry their
// width in the term. Negative signed counts panic in Go; the SSA builder inserts
// no check, so it is modelled here only for concrete counts (symbolic signed
// counts are treated as unsigned after a non-negativity branch is impossible to
// type here: callers in the code base shift by unsigned/const amounts).
func (m *Machine) shift(op token.Token, w uint8, signed bool, x, y Int) Value {
	ts := m.ts
	if y.T == nil {
		n := y.C
		if x.T == nil {
			switch {
			case op == token.SHL:
				return Int{C: foldBin(OpShl, w, x.C, n)}
			case signed:
				return Int{C: foldBin(OpAShr, w, x.C, n)}
			default:
				return Int{C: foldBin(OpLShr, w, x.C, n)}
			}
		}
		if n >= uint64(w) {
			if op == token.SHR && signed {
				n = uint64(w) - 1
			} else {
				return Int{C: 0}
			}
		}
		o := OpShl
		if op == token.SHR {
			o = OpLShr
			if signed {
				o = OpAShr
			}
		}
		return mkInt(ts.Bin(o, x.T, ts.Const(w, n)))
	}
	// symbolic count: bring it to width w, saturating
	cnt := y.T
	var c *Term
	if cnt.w == w {
		c = cnt
	} else if cnt.w < w {
		c = ts.Zext(cnt, w)
	} else {
		big := ts.Cmp(OpUle, ts.Const(cnt.w, uint64(w)), cnt)
		c = ts.Ite(big, ts.Const(w, uint64(w)), ts.Extract(cnt, w-1, 0))
	}
	a := m.term(x, w)
	o := OpShl
	if op == token.SHR {
		o = OpLShr
		if signed {
			o = OpAShr
		}
	}
	return mkInt(ts.Bin(o, a, c))
}

func (m *Machine) strEq(x, y Str) Bool {
	if x.Len() != y.Len() {
		return Bool{C: false}
	}
	if x.B == nil && y.B == nil {
		return Bool{C: x.S == y.S}
	}
	acc := m.ts.tt
	for i := 0; i < x.Len(); i++ {
		a, b := x.At(i), y.At(i)
		if a.T == nil && b.T == nil {
			if a.C != b.C {
				return Bool{C: false}
			}
			continue
		}
		acc = m.ts.And(acc, m.ts.Eq(m.term(a, 8), m.term(b, 8)))
	}
	return mkBool(acc)
}

// strLess: x < y (or x <= y when orEq) lexicographically.
func (m *Machine) strLess(x, y Str, orEq bool) Bool {
	if x.B == nil && y.B == nil {
		if orEq {
			return Bool{C: x.S <= y.S}
		}
		return Bool{C: x.S < y.S}
	}
	n := x.Len()
	if y.Len() < n {
		n = y.Len()
	}
	// tail: all of the common prefix equal
	var tail *Term
	if x.Len() < y.Len() {
		tail = m.ts.tt
	} else if x.Len() == y.Len() {
		tail = m.ts.Bool(orEq)
	} else {
		tail = m.ts.ff
	}
	res := tail
	for i := n - 1; i >= 0; i-- {
		a, b := m.term(x.At(i), 8), m.term(y.At(i), 8)
		res = m.ts.Ite(m.ts.Cmp(OpUlt, a, b), m.ts.tt, m.ts.Ite(m.ts.Eq(a, b), res, m.ts.ff))
	}
	return mkBool(res)
}

// equals implements == for comparable values (result may be symbolic).
func (m *Machine) equals(x, y Value) Bool {
	switch xv := x.(type) {
	case Int:
		yv := y.(Int)
		if xv.T == nil && yv.T == nil {
			return Bool{C: xv.C == yv.C}
		}
		var w uint8
		if xv.T != nil {
			w = xv.T.w
		} else {
			w = yv.T.w
		}
		return mkBool(m.ts.Eq(m.term(xv, w), m.term(yv, w)))
	case Bool:
		return m.boolEq(xv, y.(Bool))
	case Str:
		return m.strEq(xv, y.(Str))
	case Float:
		return Bool{C: xv == y.(Float)}
	case Complex:
		return Bool{C: xv == y.(Complex)}
	case *Value:
		yv, _ := y.(*Value)
		return Bool{C: xv == yv}
	case *MapV:
		yv, _ := y.(*MapV)
		return Bool{C: xv == yv}
	case *ChanV:
		yv, _ := y.(*ChanV)
		return Bool{C: xv == yv}
	case Slice:
		// only comparison with nil is legal
		return Bool{C: xv.A == nil && isNilValue(y)}
	case *Closure:
		return Bool{C: xv == nil && isNilValue(y)}
	case *ssa.Function:
		return Bool{C: xv == nil && isNilValue(y)}
	case HostFunc:
		return Bool{C: false}
	case UnsafePtr:
		yv := y.(UnsafePtr)
		return Bool{C: xv.P == yv.P}
	case Struct:
		yv := y.(Struct)
		acc := Bool{C: true}
		for i := range xv {
			acc = m.boolAnd(acc, m.equals(xv[i], yv[i]))
			if acc.T == nil && !acc.C {
				return acc
			}
		}
		return acc
	case Array:
		yv := y.(Array)
		acc := Bool{C: true}
		for i := range xv {
			acc = m.boolAnd(acc, m.equals(xv[i], yv[i]))
			if acc.T == nil && !acc.C {
				return acc
			}
		}
		return acc
	case Iface:
		yv, ok := y.(Iface)
		if !ok {
			return Bool{C: xv.T == nil && isNilValue(y)}
		}
		if xv.T == nil || yv.T == nil {
			return Bool{C: xv.T == nil && yv.T == nil}
		}
		if !types.Identical(xv.T, yv.T) {
			return Bool{C: false}
		}
		if !types.Comparable(xv.T) {
			panic(goPanic{m.runtimeErrorRaw("comparing uncomparable type " + xv.T.String())})
		}
		return m.equals(xv.V, yv.V)
	case nil:
		return Bool{C: isNilValue(y)}
	}
	panic(fmt.Sprintf("equals: %T vs %T", x, y))
}

// ---------------------------------------------------------------------------
// conversions

func (m *Machine) conv(fr *frame, tdst, tsrc types.Type, x Value) Value {
	ud, us := tdst.Underlying(), tsrc.Underlying()
	// type parameters do not reach here (InstantiateGenerics)
	switch us := us.(type) {
	case *types.Pointer:
		if b, ok := ud.(*types.Basic); ok && b.Kind() == types.UnsafePointer {
			return UnsafePtr{P: x.(*Value)}
		}
		return x
	case *types.Slice:
		if b, ok := ud.(*types.Basic); ok && b.Info()&types.IsString != 0 {
			xs := x.(Slice)
			if isByteType(us.Elem()) {
				bs := make([]Int, len(xs.A))
				for i, e := range xs.A {
					bs[i] = e.(Int)
				}
				return normStr(bs)
			}
			// []rune -> string
			out := Str{}
			for _, e := range xs.A {
				out = concatStr(out, m.runeToStr(fr, e.(Int)))
			}
			return out
		}
		return x
	case *types.Basic:
		if us.Kind() == types.UnsafePointer {
			if _, ok := ud.(*types.Pointer); ok {
				return x.(UnsafePtr).P
			}
			if b, ok := ud.(*types.Basic); ok && b.Kind() == types.UnsafePointer {
				return x
			}
			unsupported("conversion of unsafe.Pointer to %v", tdst)
		}
		if us.Info()&types.IsString != 0 {
			xs := x.(Str)
			switch ud := ud.(type) {
			case *types.Slice:
				if isByteType(ud.Elem()) {
					a := make([]Value, xs.Len())
					for i := range a {
						a[i] = xs.At(i)
					}
					return Slice{A: a}
				}
				// []rune(string)
				a := []Value{}
				pos := 0
				for pos < xs.Len() {
					r, n := m.decodeRune(fr, xs.Sub(pos, xs.Len()))
					a = append(a, r)
					pos += n
				}
				return Slice{A: a}
			case *types.Basic:
				if ud.Info()&types.IsString != 0 {
					return x
				}
			}
		}
		if us.Info()&types.IsInteger != 0 {
			xi := x.(Int)
			if bd, ok := ud.(*types.Basic); ok {
				switch {
				case bd.Info()&types.IsInteger != 0:
					return m.intConv(xi, us, bd)
				case bd.Info()&types.IsString != 0:
					w, signed := intWidth(us)
					return m.runeToStr(fr, m.intConvW(xi, w, signed, 32))
				case bd.Info()&types.IsFloat != 0:
					w, signed := intWidth(us)
					c := m.concInt(xi, w, "int->float")
					if signed {
						return Float(float64(sext64(c, w)))
					}
					return Float(float64(c))
				case bd.Kind() == types.UnsafePointer:
					unsupported("uintptr -> unsafe.Pointer")
				}
			}
		}
		if us.Info()&types.IsFloat != 0 {
			xf := float64(x.(Float))
			if bd, ok := ud.(*types.Basic); ok {
				switch {
				case bd.Info()&types.IsFloat != 0:
					if bd.Kind() == types.Float32 {
						return Float(float64(float32(xf)))
					}
					return Float(xf)
				case bd.Info()&types.IsInteger != 0:
					w, signed := intWidth(bd)
					if signed {
						return Int{C: uint64(int64(xf)) & mask(w)}
					}
					return Int{C: uint64(xf) & mask(w)}
				}
			}
		}
		if us.Info()&types.IsBoolean != 0 {
			return x
		}
	case *types.Struct, *types.Array, *types.Map, *types.Chan, *types.Signature, *types.Interface:
		return x
	}
	panic(fmt.Sprintf("conv: %v -> %v (%T)", tsrc, tdst, x))
}

func isByteType(t types.Type) bool {
	b, ok := t.Underlying().(*types.Basic)
	return ok && b.Kind() == types.Uint8
}

func (m *Machine) intConv(x Int, src, dst *types.Basic) Int {
	sw, ss := intWidth(src)
	dw, _ := intWidth(dst)
	return m.intConvW(x, sw, ss, dw)
}

func (m *Machine) intConvW(x Int, sw uint8, ssigned bool, dw uint8) Int {
	if x.T == nil {
		if dw <= sw {
			return Int{C: x.C & mask(dw)}
		}
		if ssigned {
			return Int{C: uint64(sext64(x.C, sw)) & mask(dw)}
		}
		return Int{C: x.C}
	}
	if dw <= sw {
		return mkInt(m.ts.Extract(x.T, dw-1, 0))
	}
	if ssigned {
		return mkInt(m.ts.Sext(x.T, dw))
	}
	return mkInt(m.ts.Zext(x.T, dw))
}

// runeToStr implements string(rune) by running the real utf8.AppendRune.
func (m *Machine) runeToStr(fr *frame, r Int) Str {
	if r.T == nil {
		return Str{S: string(rune(int32(r.C)))}
	}
	fn := m.prog.lookupFunc("unicode/utf8", "AppendRune")
	res := m.call(fr, token.NoPos, fn, []Value{Slice{}, r}).(Slice)
	bs := make([]Int, len(res.A))
	for i, e := range res.A {
		bs[i] = e.(Int)
	}
	return normStr(bs)
}

// decodeRune implements range-over-string decoding by running the real
// utf8.DecodeRuneInString when bytes are symbolic.
func (m *Machine) decodeRune(fr *frame, s Str) (Int, int) {
	if s.B == nil {
		r, n := decodeRuneConcrete(s.S)
		return Int{C: uint64(uint32(r))}, n
	}
	if s.B[0].T == nil && s.B[0].C < 0x80 {
		return Int{C: s.B[0].C}, 1
	}
	// limit to the first 4 bytes: DecodeRuneInString never looks further
	if s.Len() > 4 {
		s = s.Sub(0, 4)
	}
	fn := m.prog.lookupFunc("unicode/utf8", "DecodeRuneInString")
	res := m.call(fr, token.NoPos, fn, []Value{s}).(Tuple)
	n := m.concInt(res[1].(Int), 64, "rune size")
	return res[0].(Int), int(n)
}

func decodeRuneConcrete(s string) (rune, int) {
	for i, r := range s {
		_ = i
		n := 1
		if r != 0xFFFD || (len(s) >= 3 && s[:3] == "�") {
			n = len(string(r))
		}
		return r, n
	}
	return 0xFFFD, 0
}

var _ = math.Inf
