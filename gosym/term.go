package main

// Term layer: hash-consed DAG of Bool / bit-vector terms with constant folding,
// a Go-side evaluator (used to follow the current model for free and to
// concretise counterexamples) and an SMT-LIB2 printer.

import (
	"fmt"
	"math/bits"
	"strings"
)

type Op uint8

const (
	OpConst Op = iota
	OpVar
	OpNot  // bool
	OpAnd  // bool
	OpOr   // bool
	OpEq   // bool result, args same sort
	OpIte  // a ? b : c
	OpAdd
	OpSub
	OpMul
	OpUDiv
	OpURem
	OpSDiv
	OpSRem
	OpBAnd
	OpBOr
	OpBXor
	OpBNot
	OpNeg
	OpShl
	OpLShr
	OpAShr
	OpUlt // bool
	OpUle // bool
	OpSlt // bool
	OpSle // bool
	OpZext
	OpSext
	OpExtract // k = hi<<8|lo
	OpConcat  // a high, b low
	OpTable   // k = table id, a = index (bit-vector); result width w
)

var opNames = map[Op]string{
	OpNot: "not", OpAnd: "and", OpOr: "or", OpEq: "=", OpIte: "ite",
	OpAdd: "bvadd", OpSub: "bvsub", OpMul: "bvmul", OpUDiv: "bvudiv", OpURem: "bvurem",
	OpSDiv: "bvsdiv", OpSRem: "bvsrem", OpBAnd: "bvand", OpBOr: "bvor", OpBXor: "bvxor",
	OpBNot: "bvnot", OpNeg: "bvneg", OpShl: "bvshl", OpLShr: "bvlshr", OpAShr: "bvashr",
	OpUlt: "bvult", OpUle: "bvule", OpSlt: "bvslt", OpSle: "bvsle", OpConcat: "concat",
}

// Term is an immutable node. w == 0 means Bool sort, otherwise a bit-vector of w bits.
type Term struct {
	op      Op
	w       uint8
	a, b, c *Term
	k       uint64
	id      int32
}

type termKey struct {
	op      Op
	w       uint8
	a, b, c int32
	k       uint64
}

// Table is a concrete lookup table indexed by a symbolic bit-vector.
type Table struct {
	id    int
	name  string
	iw    uint8 // index width
	ow    uint8 // output width
	vals  []uint64
	deflt uint64
}

// TermStore owns the terms of one path.
type TermStore struct {
	m      map[termKey]*Term
	next   int32
	nvars  int
	vars   []*Term
	tables []*Table
	tabKey map[string]*Table
	tt, ff *Term
}

func NewTermStore() *TermStore {
	ts := &TermStore{tabKey: map[string]*Table{}}
	ts.Reset()
	return ts
}

// Reset drops all terms (start of a new path). Tables survive: they are defined
// once per solver process at level 0.
func (ts *TermStore) Reset() {
	ts.m = make(map[termKey]*Term, 1024)
	ts.next = 1
	ts.nvars = 0
	ts.vars = ts.vars[:0]
	ts.tt = ts.mk(OpConst, 0, nil, nil, nil, 1)
	ts.ff = ts.mk(OpConst, 0, nil, nil, nil, 0)
}

func tid(t *Term) int32 {
	if t == nil {
		return 0
	}
	return t.id
}

func (ts *TermStore) mk(op Op, w uint8, a, b, c *Term, k uint64) *Term {
	key := termKey{op, w, tid(a), tid(b), tid(c), k}
	if t, ok := ts.m[key]; ok {
		return t
	}
	t := &Term{op: op, w: w, a: a, b: b, c: c, k: k, id: ts.next}
	ts.next++
	ts.m[key] = t
	return t
}

func mask(w uint8) uint64 {
	if w >= 64 {
		return ^uint64(0)
	}
	return (uint64(1) << w) - 1
}

func sext64(v uint64, w uint8) int64 {
	if w >= 64 {
		return int64(v)
	}
	sh := 64 - uint(w)
	return int64(v<<sh) >> sh
}

func (ts *TermStore) Const(w uint8, v uint64) *Term {
	return ts.mk(OpConst, w, nil, nil, nil, v&mask(w))
}
func (ts *TermStore) Bool(b bool) *Term {
	if b {
		return ts.tt
	}
	return ts.ff
}

// NewVar creates the next symbolic variable; names are positional (v0, v1, …) so
// that re-execution along a shared prefix yields the same variables.
func (ts *TermStore) NewVar(w uint8) *Term {
	t := ts.mk(OpVar, w, nil, nil, nil, uint64(ts.nvars))
	ts.nvars++
	ts.vars = append(ts.vars, t)
	return t
}

func (t *Term) IsConst() bool { return t.op == OpConst }
func (t *Term) IsTrue() bool  { return t.op == OpConst && t.w == 0 && t.k == 1 }
func (t *Term) IsFalse() bool { return t.op == OpConst && t.w == 0 && t.k == 0 }

func (ts *TermStore) Not(a *Term) *Term {
	if a.op == OpConst {
		return ts.Bool(a.k == 0)
	}
	if a.op == OpNot {
		return a.a
	}
	return ts.mk(OpNot, 0, a, nil, nil, 0)
}

func (ts *TermStore) And(a, b *Term) *Term {
	if a.op == OpConst {
		if a.k == 0 {
			return a
		}
		return b
	}
	if b.op == OpConst {
		if b.k == 0 {
			return b
		}
		return a
	}
	if a == b {
		return a
	}
	if a.id > b.id {
		a, b = b, a
	}
	return ts.mk(OpAnd, 0, a, b, nil, 0)
}

func (ts *TermStore) Or(a, b *Term) *Term {
	if a.op == OpConst {
		if a.k == 1 {
			return a
		}
		return b
	}
	if b.op == OpConst {
		if b.k == 1 {
			return b
		}
		return a
	}
	if a == b {
		return a
	}
	if a.id > b.id {
		a, b = b, a
	}
	return ts.mk(OpOr, 0, a, b, nil, 0)
}

func (ts *TermStore) Ite(c, a, b *Term) *Term {
	if c.op == OpConst {
		if c.k == 1 {
			return a
		}
		return b
	}
	if a == b {
		return a
	}
	if a.w == 0 {
		// boolean ite
		if a.op == OpConst && b.op == OpConst {
			if a.k == 1 {
				return c
			}
			return ts.Not(c)
		}
		if a.op == OpConst {
			if a.k == 1 {
				return ts.Or(c, b)
			}
			return ts.And(ts.Not(c), b)
		}
		if b.op == OpConst {
			if b.k == 1 {
				return ts.Or(ts.Not(c), a)
			}
			return ts.And(c, a)
		}
	}
	if c.op == OpNot {
		return ts.mk(OpIte, a.w, c.a, b, a, 0)
	}
	return ts.mk(OpIte, a.w, c, a, b, 0)
}

func (ts *TermStore) Eq(a, b *Term) *Term {
	if a == b {
		return ts.tt
	}
	if a.w != b.w {
		panic(fmt.Sprintf("Eq width mismatch %d vs %d", a.w, b.w))
	}
	if a.op == OpConst && b.op == OpConst {
		return ts.Bool(a.k == b.k)
	}
	if a.op == OpConst {
		a, b = b, a
	}
	if b.op == OpConst {
		if a.w == 0 {
			if b.k == 1 {
				return a
			}
			return ts.Not(a)
		}
		// eq(ite(c,k1,k2), k) folding — keeps table/class lookups small
		if a.op == OpIte && (a.b.op == OpConst || a.c.op == OpConst) {
			return ts.Ite(a.a, ts.Eq(a.b, b), ts.Eq(a.c, b))
		}
		if a.op == OpZext {
			if b.k > mask(a.a.w) {
				return ts.ff
			}
			return ts.Eq(a.a, ts.Const(a.a.w, b.k))
		}
	}
	if a.id > b.id {
		a, b = b, a
	}
	return ts.mk(OpEq, 0, a, b, nil, 0)
}

func foldBin(op Op, w uint8, x, y uint64) uint64 {
	m := mask(w)
	switch op {
	case OpAdd:
		return (x + y) & m
	case OpSub:
		return (x - y) & m
	case OpMul:
		return (x * y) & m
	case OpUDiv:
		if y == 0 {
			return m
		}
		return x / y
	case OpURem:
		if y == 0 {
			return x
		}
		return x % y
	case OpSDiv:
		sx, sy := sext64(x, w), sext64(y, w)
		if sy == 0 {
			if sx >= 0 {
				return m
			}
			return 1
		}
		if sy == -1 {
			return uint64(-sx) & m
		}
		return uint64(sx/sy) & m
	case OpSRem:
		sx, sy := sext64(x, w), sext64(y, w)
		if sy == 0 {
			return x
		}
		if sy == -1 {
			return 0
		}
		return uint64(sx%sy) & m
	case OpBAnd:
		return x & y
	case OpBOr:
		return x | y
	case OpBXor:
		return x ^ y
	case OpShl:
		if y >= uint64(w) {
			return 0
		}
		return (x << y) & m
	case OpLShr:
		if y >= uint64(w) {
			return 0
		}
		return x >> y
	case OpAShr:
		sx := sext64(x, w)
		if y >= uint64(w) {
			y = uint64(w) - 1
		}
		return uint64(sx>>y) & m
	}
	panic("foldBin")
}

func foldCmp(op Op, w uint8, x, y uint64) bool {
	switch op {
	case OpUlt:
		return x < y
	case OpUle:
		return x <= y
	case OpSlt:
		return sext64(x, w) < sext64(y, w)
	case OpSle:
		return sext64(x, w) <= sext64(y, w)
	}
	panic("foldCmp")
}

func (ts *TermStore) Bin(op Op, a, b *Term) *Term {
	if a.w != b.w {
		panic(fmt.Sprintf("Bin %s width mismatch %d vs %d", opNames[op], a.w, b.w))
	}
	w := a.w
	if a.op == OpConst && b.op == OpConst {
		return ts.Const(w, foldBin(op, w, a.k, b.k))
	}
	switch op {
	case OpAdd, OpBOr, OpBXor:
		if a.op == OpConst && a.k == 0 {
			return b
		}
		if b.op == OpConst && b.k == 0 {
			return a
		}
	case OpSub, OpShl, OpLShr, OpAShr:
		if b.op == OpConst && b.k == 0 {
			return a
		}
		if op == OpSub {
			if a == b {
				return ts.Const(w, 0)
			}
			// (x + c) - x, (x + c1) - (x + c2), x - (x + c)
			ax, ac := splitAddConst(a)
			bx, bc := splitAddConst(b)
			if ax == bx && ax != nil {
				return ts.Const(w, ac-bc)
			}
		}
	case OpBAnd:
		if a.op == OpConst {
			if a.k == 0 {
				return a
			}
			if a.k == mask(w) {
				return b
			}
		}
		if b.op == OpConst {
			if b.k == 0 {
				return b
			}
			if b.k == mask(w) {
				return a
			}
			// and(zext(x), m) where m covers x entirely
			if a.op == OpZext && b.k&mask(a.a.w) == mask(a.a.w) {
				return a
			}
		}
	case OpMul:
		if a.op == OpConst && a.k == 1 {
			return b
		}
		if b.op == OpConst && b.k == 1 {
			return a
		}
		if (a.op == OpConst && a.k == 0) || (b.op == OpConst && b.k == 0) {
			return ts.Const(w, 0)
		}
	case OpUDiv:
		if b.op == OpConst && b.k == 1 {
			return a
		}
	}
	switch op {
	case OpAdd, OpMul, OpBAnd, OpBOr, OpBXor:
		if a.id > b.id {
			a, b = b, a
		}
	}
	return ts.mk(op, w, a, b, nil, 0)
}

// splitAddConst views t as x + c (c = 0 when t is not an addition of a constant).
func splitAddConst(t *Term) (*Term, uint64) {
	if t.op == OpAdd {
		if t.a.op == OpConst {
			return t.b, t.a.k
		}
		if t.b.op == OpConst {
			return t.a, t.b.k
		}
	}
	if t.op == OpConst {
		return nil, t.k
	}
	return t, 0
}

// urange returns a conservative unsigned range of t.
func urange(t *Term) (lo, hi uint64) {
	switch t.op {
	case OpConst:
		return t.k, t.k
	case OpZext:
		return urange(t.a)
	case OpIte:
		l1, h1 := urange(t.b)
		l2, h2 := urange(t.c)
		if l2 < l1 {
			l1 = l2
		}
		if h2 > h1 {
			h1 = h2
		}
		return l1, h1
	case OpBAnd:
		if t.b.op == OpConst {
			return 0, t.b.k
		}
		if t.a.op == OpConst {
			return 0, t.a.k
		}
	case OpLShr:
		if t.b.op == OpConst && t.b.k < 64 {
			_, h := urange(t.a)
			return 0, h >> t.b.k
		}
	case OpTable:
		return 0, mask(t.w)
	}
	return 0, mask(t.w)
}

func (ts *TermStore) Cmp(op Op, a, b *Term) *Term {
	if a.w != b.w {
		panic(fmt.Sprintf("Cmp width mismatch %d vs %d", a.w, b.w))
	}
	if a.op == OpConst && b.op == OpConst {
		return ts.Bool(foldCmp(op, a.w, a.k, b.k))
	}
	if a == b {
		return ts.Bool(op == OpUle || op == OpSle)
	}
	// range-based folding (zero-extended bytes compared with constants etc.)
	{
		la, ha := urange(a)
		lb, hb := urange(b)
		// both operands non-negative as signed numbers => signed order == unsigned order
		signedOK := ha <= mask(a.w)>>1 && hb <= mask(a.w)>>1
		if op == OpUlt || (op == OpSlt && signedOK) {
			if ha < lb {
				return ts.tt
			}
			if la >= hb {
				return ts.ff
			}
		}
		if op == OpUle || (op == OpSle && signedOK) {
			if ha <= lb {
				return ts.tt
			}
			if la > hb {
				return ts.ff
			}
		}
	}
	// narrow comparisons of zero-extended values against constants
	if a.op == OpZext && b.op == OpConst && b.k <= mask(a.a.w) && (op == OpUlt || op == OpUle || b.k <= mask(a.w)>>1) {
		nop := op
		if op == OpSlt {
			nop = OpUlt
		} else if op == OpSle {
			nop = OpUle
		}
		return ts.Cmp(nop, a.a, ts.Const(a.a.w, b.k))
	}
	if b.op == OpZext && a.op == OpConst && a.k <= mask(b.a.w) && (op == OpUlt || op == OpUle || a.k <= mask(b.w)>>1) {
		nop := op
		if op == OpSlt {
			nop = OpUlt
		} else if op == OpSle {
			nop = OpUle
		}
		return ts.Cmp(nop, ts.Const(b.a.w, a.k), b.a)
	}
	return ts.mk(op, 0, a, b, nil, 0)
}

func (ts *TermStore) BNot(a *Term) *Term {
	if a.op == OpConst {
		return ts.Const(a.w, ^a.k)
	}
	if a.op == OpBNot {
		return a.a
	}
	return ts.mk(OpBNot, a.w, a, nil, nil, 0)
}

func (ts *TermStore) Neg(a *Term) *Term {
	if a.op == OpConst {
		return ts.Const(a.w, -a.k)
	}
	return ts.mk(OpNeg, a.w, a, nil, nil, 0)
}

func (ts *TermStore) Zext(a *Term, w uint8) *Term {
	if a.w == w {
		return a
	}
	if a.w > w {
		return ts.Extract(a, w-1, 0)
	}
	if a.op == OpConst {
		return ts.Const(w, a.k)
	}
	if a.op == OpZext {
		return ts.Zext(a.a, w)
	}
	if a.op == OpIte && a.b.op == OpConst && a.c.op == OpConst {
		return ts.Ite(a.a, ts.Const(w, a.b.k), ts.Const(w, a.c.k))
	}
	return ts.mk(OpZext, w, a, nil, nil, 0)
}

func (ts *TermStore) Sext(a *Term, w uint8) *Term {
	if a.w == w {
		return a
	}
	if a.w > w {
		return ts.Extract(a, w-1, 0)
	}
	if a.op == OpConst {
		return ts.Const(w, uint64(sext64(a.k, a.w)))
	}
	if a.op == OpZext && a.a.w < a.w {
		return ts.Zext(a.a, w)
	}
	return ts.mk(OpSext, w, a, nil, nil, 0)
}

func (ts *TermStore) Extract(a *Term, hi, lo uint8) *Term {
	w := hi - lo + 1
	if lo == 0 && w == a.w {
		return a
	}
	if a.op == OpConst {
		return ts.Const(w, a.k>>lo)
	}
	if (a.op == OpZext || a.op == OpSext) && lo == 0 {
		if w == a.a.w {
			return a.a
		}
		if w < a.a.w {
			return ts.Extract(a.a, hi, 0)
		}
		if a.op == OpZext {
			return ts.Zext(a.a, w)
		}
		return ts.Sext(a.a, w)
	}
	if a.op == OpZext && lo >= a.a.w {
		return ts.Const(w, 0)
	}
	if a.op == OpExtract {
		l0 := uint8(a.k & 0xff)
		return ts.Extract(a.a, hi+l0, lo+l0)
	}
	if lo == 0 {
		switch a.op {
		case OpAdd, OpSub, OpMul, OpBAnd, OpBOr, OpBXor:
			// truncation distributes over these
			return ts.Bin(a.op, ts.Extract(a.a, hi, 0), ts.Extract(a.b, hi, 0))
		case OpIte:
			if a.b.op == OpConst || a.c.op == OpConst {
				return ts.Ite(a.a, ts.Extract(a.b, hi, 0), ts.Extract(a.c, hi, 0))
			}
		}
	}
	return ts.mk(OpExtract, w, a, nil, nil, uint64(hi)<<8|uint64(lo))
}

func (ts *TermStore) Concat(hi, lo *Term) *Term {
	w := hi.w + lo.w
	if hi.op == OpConst && lo.op == OpConst {
		return ts.Const(w, hi.k<<lo.w|lo.k)
	}
	if hi.op == OpConst && hi.k == 0 {
		return ts.Zext(lo, w)
	}
	return ts.mk(OpConcat, w, hi, lo, nil, 0)
}

// GetTable interns a concrete table.
func (ts *TermStore) GetTable(name string, iw, ow uint8, vals []uint64, deflt uint64) *Table {
	key := fmt.Sprintf("%s/%d/%d/%d/%v", name, iw, ow, deflt, vals)
	if t, ok := ts.tabKey[key]; ok {
		return t
	}
	t := &Table{id: len(ts.tables), name: name, iw: iw, ow: ow, vals: append([]uint64(nil), vals...), deflt: deflt}
	ts.tables = append(ts.tables, t)
	ts.tabKey[key] = t
	return t
}

func (ts *TermStore) TableLookup(tb *Table, idx *Term) *Term {
	if idx.w != tb.iw {
		panic("table index width")
	}
	if idx.op == OpConst {
		if idx.k < uint64(len(tb.vals)) {
			return ts.Const(tb.ow, tb.vals[idx.k])
		}
		return ts.Const(tb.ow, tb.deflt)
	}
	return ts.mk(OpTable, tb.ow, idx, nil, nil, uint64(tb.id))
}

// ---------------------------------------------------------------------------
// Evaluation under a model (missing variables read as 0).

type Model []uint64

type evaluator struct {
	ts    *TermStore
	model Model
	memo  map[int32]uint64
}

func (ts *TermStore) Eval(t *Term, m Model) uint64 {
	if t.op == OpConst {
		return t.k
	}
	e := evaluator{ts: ts, model: m, memo: map[int32]uint64{}}
	return e.eval(t)
}

func (e *evaluator) eval(t *Term) uint64 {
	switch t.op {
	case OpConst:
		return t.k
	case OpVar:
		if int(t.k) < len(e.model) {
			return e.model[t.k] & mask1(t.w)
		}
		return 0
	}
	if v, ok := e.memo[t.id]; ok {
		return v
	}
	var r uint64
	switch t.op {
	case OpNot:
		r = 1 - e.eval(t.a)
	case OpAnd:
		if e.eval(t.a) == 0 {
			r = 0
		} else {
			r = e.eval(t.b)
		}
	case OpOr:
		if e.eval(t.a) == 1 {
			r = 1
		} else {
			r = e.eval(t.b)
		}
	case OpEq:
		if e.eval(t.a) == e.eval(t.b) {
			r = 1
		}
	case OpIte:
		if e.eval(t.a) == 1 {
			r = e.eval(t.b)
		} else {
			r = e.eval(t.c)
		}
	case OpAdd, OpSub, OpMul, OpUDiv, OpURem, OpSDiv, OpSRem, OpBAnd, OpBOr, OpBXor, OpShl, OpLShr, OpAShr:
		r = foldBin(t.op, t.w, e.eval(t.a), e.eval(t.b))
	case OpUlt, OpUle, OpSlt, OpSle:
		if foldCmp(t.op, t.a.w, e.eval(t.a), e.eval(t.b)) {
			r = 1
		}
	case OpBNot:
		r = ^e.eval(t.a) & mask(t.w)
	case OpNeg:
		r = -e.eval(t.a) & mask(t.w)
	case OpZext:
		r = e.eval(t.a)
	case OpSext:
		r = uint64(sext64(e.eval(t.a), t.a.w)) & mask(t.w)
	case OpExtract:
		lo := uint8(t.k & 0xff)
		r = (e.eval(t.a) >> lo) & mask(t.w)
	case OpConcat:
		r = e.eval(t.a)<<t.b.w | e.eval(t.b)
	case OpTable:
		tb := e.ts.tables[t.k]
		i := e.eval(t.a)
		if i < uint64(len(tb.vals)) {
			r = tb.vals[i]
		} else {
			r = tb.deflt
		}
	default:
		panic("eval: bad op")
	}
	e.memo[t.id] = r
	return r
}

func mask1(w uint8) uint64 {
	if w == 0 {
		return 1
	}
	return mask(w)
}

// ---------------------------------------------------------------------------
// SMT-LIB printing.

func sortOf(w uint8) string {
	if w == 0 {
		return "Bool"
	}
	return fmt.Sprintf("(_ BitVec %d)", w)
}

func constLit(w uint8, k uint64) string {
	if w == 0 {
		if k == 1 {
			return "true"
		}
		return "false"
	}
	if w%4 == 0 {
		return fmt.Sprintf("#x%0*x", int(w/4), k)
	}
	return fmt.Sprintf("#b%0*b", int(w), k)
}

// ref returns the SMT-LIB reference of a term that has been (or need not be) defined.
func (t *Term) ref() string {
	switch t.op {
	case OpConst:
		return constLit(t.w, t.k)
	case OpVar:
		return fmt.Sprintf("v%d", t.k)
	}
	return fmt.Sprintf("t%d", t.id)
}

// body renders the defining expression of a non-leaf term, referring to its
// operands by name.
func (ts *TermStore) body(t *Term) string {
	switch t.op {
	case OpNot, OpBNot, OpNeg:
		return fmt.Sprintf("(%s %s)", opNames[t.op], t.a.ref())
	case OpIte:
		return fmt.Sprintf("(ite %s %s %s)", t.a.ref(), t.b.ref(), t.c.ref())
	case OpZext:
		return fmt.Sprintf("((_ zero_extend %d) %s)", t.w-t.a.w, t.a.ref())
	case OpSext:
		return fmt.Sprintf("((_ sign_extend %d) %s)", t.w-t.a.w, t.a.ref())
	case OpExtract:
		return fmt.Sprintf("((_ extract %d %d) %s)", t.k>>8, t.k&0xff, t.a.ref())
	case OpTable:
		return fmt.Sprintf("(tab%d %s)", t.k, t.a.ref())
	default:
		return fmt.Sprintf("(%s %s %s)", opNames[t.op], t.a.ref(), t.b.ref())
	}
}

// tableDef renders a table as a define-fun over a balanced decision tree on the
// index (equal neighbouring entries collapse into ranges). A flat 256-deep ite chain
// made z3 spend ~90 ms per query; this form costs ~1 ms.
func tableDef(tb *Table) string {
	var sb strings.Builder
	fmt.Fprintf(&sb, "(define-fun tab%d ((i %s)) %s ", tb.id, sortOf(tb.iw), sortOf(tb.ow))
	n := len(tb.vals)
	total := 1 << tb.iw
	get := func(i int) uint64 {
		if i < n {
			return tb.vals[i]
		}
		return tb.deflt
	}
	var tree func(lo, hi int)
	tree = func(lo, hi int) {
		// uniform?
		uniform := true
		if lo < n {
			v := get(lo)
			top := hi
			if top >= n {
				top = n // one probe beyond the table covers the default region
			}
			for k := lo + 1; k <= top && k < total; k++ {
				if get(k) != v {
					uniform = false
					break
				}
			}
		}
		if uniform {
			sb.WriteString(constLit(tb.ow, get(lo)))
			return
		}
		mid := lo + (hi-lo)/2
		fmt.Fprintf(&sb, "(ite (bvule i %s) ", constLit(tb.iw, uint64(mid)))
		tree(lo, mid)
		sb.WriteString(" ")
		tree(mid+1, hi)
		sb.WriteString(")")
	}
	tree(0, total-1)
	sb.WriteString(")")
	return sb.String()
}

func (t *Term) String() string {
	switch t.op {
	case OpConst, OpVar:
		return t.ref()
	}
	var sb strings.Builder
	t.str(&sb, 0)
	return sb.String()
}

func (t *Term) str(sb *strings.Builder, d int) {
	if t.op == OpConst || t.op == OpVar {
		sb.WriteString(t.ref())
		return
	}
	if d > 6 {
		sb.WriteString("…")
		return
	}
	sb.WriteString("(")
	switch t.op {
	case OpZext:
		fmt.Fprintf(sb, "zext%d", t.w)
	case OpSext:
		fmt.Fprintf(sb, "sext%d", t.w)
	case OpExtract:
		fmt.Fprintf(sb, "extract[%d:%d]", t.k>>8, t.k&0xff)
	case OpTable:
		fmt.Fprintf(sb, "tab%d", t.k)
	default:
		sb.WriteString(opNames[t.op])
	}
	for _, x := range []*Term{t.a, t.b, t.c} {
		if x != nil {
			sb.WriteString(" ")
			x.str(sb, d+1)
		}
	}
	sb.WriteString(")")
}

var _ = bits.Len
