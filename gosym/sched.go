package main

// Cooperative, deterministic goroutines: every interpreted goroutine has its own
// host goroutine, but only the holder of the baton runs. Control changes hands
// only when the running goroutine blocks or ends (round-robin). One schedule —
// not a schedule exploration.

import (
	"fmt"
	"go/token"
	"go/types"
	"strings"

	"golang.org/x/tools/go/ssa"
)

type G struct {
	id        int
	wake      chan struct{}
	exited    chan struct{}
	done      bool
	started   bool
	blockedOn string
	top       *frame
	name      string
}

func (m *Machine) resetSched() {
	m.gs = m.gs[:0]
	g := &G{id: 0, wake: make(chan struct{}, 1), started: true, name: "main"}
	m.gs = append(m.gs, g)
	m.curG = g
	m.killed = false
	m.idle = 0
}

func (m *Machine) spawn(fr *frame, pos token.Pos, fn Value, args []Value) {
	g := &G{id: len(m.gs), wake: make(chan struct{}, 1), exited: make(chan struct{})}
	switch f := fn.(type) {
	case *ssa.Function:
		g.name = f.String()
	case *Closure:
		g.name = f.Fn.String()
	}
	m.gs = append(m.gs, g)
	m.goroutinesSpawned++
	go func() {
		<-g.wake
		defer close(g.exited)
		if m.killed {
			g.done = true
			return
		}
		g.started = true
		m.idle = 0
		func() {
			defer func() {
				r := recover()
				if r == nil {
					return
				}
				switch r := r.(type) {
				case pathAbort:
				case goPanic:
					m.pathOutcome("goroutine-panic", "uncaught panic in goroutine "+g.name+": "+m.panicString(r.v))
					m.uncaughtPanic = &r
				case engineError:
					m.fatalErr = r
				case hostCrash:
					m.fatalErr = r
				default:
					m.fatalErr = hostCrash{fmt.Sprintf("%v", r)}
				}
				if !m.killed {
					// terminate the whole path: hand control back to main, which aborts
					m.killed = true
				}
			}()
			m.curG = g
			m.call(nil, pos, fn, args)
		}()
		g.done = true
		if m.killed {
			// wake main so that it unwinds
			main := m.gs[0]
			if !main.done && m.curG != main {
				m.curG = main
				main.wake <- struct{}{}
			}
			return
		}
		m.idle = 0
		next := m.nextRunnable(g)
		if next == nil {
			return
		}
		m.curG = next
		next.wake <- struct{}{}
	}()
}

func (m *Machine) nextRunnable(cur *G) *G {
	n := len(m.gs)
	for k := 1; k <= n; k++ {
		g := m.gs[(cur.id+k)%n]
		if !g.done && g != cur {
			return g
		}
	}
	return nil
}

func (m *Machine) liveCount() int {
	n := 0
	for _, g := range m.gs {
		if !g.done {
			n++
		}
	}
	return n
}

// yield hands the baton to the next goroutine and waits to get it back.
func (m *Machine) yield(what string) {
	g := m.curG
	g.blockedOn = what
	m.idle++
	if m.idle > 2*m.liveCount()+2 {
		var sb strings.Builder
		for _, x := range m.gs {
			if !x.done {
				fmt.Fprintf(&sb, "g%d(%s) blocked on %s; ", x.id, x.name, x.blockedOn)
			}
		}
		m.pathOutcome("deadlock", sb.String())
		panic(pathAbort{})
	}
	next := m.nextRunnable(g)
	if next == nil {
		return // alone: caller re-checks its condition; idle counter will trip
	}
	m.switches++
	m.curG = next
	next.wake <- struct{}{}
	<-g.wake
	if m.killed {
		panic(pathAbort{})
	}
	m.curG = g
}

// wait blocks the current goroutine until ready() holds.
func (m *Machine) wait(what string, ready func() bool) {
	for !ready() {
		m.yield(what)
	}
	m.idle = 0
}

// killAll terminates every parked goroutine (end of path). Called by main.
func (m *Machine) killAll() {
	m.killed = true
	for _, g := range m.gs[1:] {
		if g.exited == nil {
			continue
		}
		select {
		case <-g.exited:
			continue
		default:
		}
		g.wake <- struct{}{}
		<-g.exited
	}
}

// ---------------------------------------------------------------------------
// channels

func (m *Machine) chanMut(c *ChanV) {
	if m.journalOn {
		buf := append([]Value(nil), c.buf...)
		closed := c.closed
		rw := c.recvWaiting
		m.undo = append(m.undo, func() { c.buf, c.closed, c.recvWaiting = buf, closed, rw })
	}
}

func (m *Machine) chanSend(fr *frame, c *ChanV, v Value) {
	if c == nil {
		m.wait("send on nil chan", func() bool { return false })
	}
	what := fmt.Sprintf("chan send #%d", c.id)
	if c.cap > 0 {
		m.wait(what, func() bool { return c.closed || len(c.buf) < c.cap })
		if c.closed {
			panic(goPanic{m.plainError("send on closed channel")})
		}
		m.chanMut(c)
		c.buf = append(c.buf, copyVal(v))
		return
	}
	// unbuffered: hand-off slot, then wait until it has been taken
	m.wait(what, func() bool { return c.closed || len(c.buf) == 0 })
	if c.closed {
		panic(goPanic{m.plainError("send on closed channel")})
	}
	m.chanMut(c)
	c.buf = append(c.buf, copyVal(v))
	m.handoffs++
	tok := m.handoffs
	c.handoff = tok
	m.wait(what+" (rendezvous)", func() bool { return c.handoff != tok || len(c.buf) == 0 })
}

func (m *Machine) chanRecv(fr *frame, c *ChanV, commaOk bool) Value {
	if c == nil {
		m.wait("recv on nil chan", func() bool { return false })
	}
	what := fmt.Sprintf("chan recv #%d", c.id)
	c.recvWaiting++
	m.wait(what, func() bool { return len(c.buf) > 0 || c.closed })
	c.recvWaiting--
	var v Value
	ok := false
	if len(c.buf) > 0 {
		m.chanMut(c)
		v = c.buf[0]
		c.buf = append([]Value(nil), c.buf[1:]...)
		ok = true
	} else {
		v = zero(c.elem)
	}
	if commaOk {
		return Tuple{v, Bool{C: ok}}
	}
	return v
}

func (m *Machine) chanClose(c *ChanV) {
	if c == nil {
		panic(goPanic{m.plainError("close of nil channel")})
	}
	if c.closed {
		panic(goPanic{m.plainError("close of closed channel")})
	}
	m.chanMut(c)
	c.closed = true
}

func (m *Machine) selectOp(fr *frame, instr *ssa.Select) Value {
	type st struct {
		c    *ChanV
		send bool
		v    Value
	}
	states := make([]st, len(instr.States))
	for i, s := range instr.States {
		c, _ := fr.get(s.Chan).(*ChanV)
		states[i] = st{c: c, send: s.Dir == types.SendOnly}
		if s.Send != nil {
			states[i].v = fr.get(s.Send)
		}
	}
	chosen := -1
	readyIdx := func() int {
		for i, s := range states {
			if s.c == nil {
				continue
			}
			if s.send {
				if s.c.closed {
					return i
				}
				if s.c.cap > 0 && len(s.c.buf) < s.c.cap {
					return i
				}
				if s.c.cap == 0 && len(s.c.buf) == 0 && s.c.recvWaiting > 0 {
					return i
				}
			} else if len(s.c.buf) > 0 || s.c.closed {
				return i
			}
		}
		return -1
	}
	if instr.Blocking {
		for _, s := range states {
			if s.c != nil && !s.send {
				s.c.recvWaiting++
			}
		}
		m.wait("select", func() bool { chosen = readyIdx(); return chosen >= 0 })
		for _, s := range states {
			if s.c != nil && !s.send {
				s.c.recvWaiting--
			}
		}
	} else {
		chosen = readyIdx()
	}
	res := Tuple{Int{C: uint64(int64(chosen))}, Bool{C: false}}
	var recvVals []Value
	for i, s := range instr.States {
		if s.Dir == types.RecvOnly {
			recvVals = append(recvVals, zero(s.Chan.Type().Underlying().(*types.Chan).Elem()))
			_ = i
		}
	}
	if chosen >= 0 {
		s := states[chosen]
		if s.send {
			if s.c.closed {
				panic(goPanic{m.plainError("send on closed channel")})
			}
			m.chanMut(s.c)
			s.c.buf = append(s.c.buf, copyVal(s.v))
		} else {
			ok := false
			var v Value
			if len(s.c.buf) > 0 {
				m.chanMut(s.c)
				v = s.c.buf[0]
				s.c.buf = append([]Value(nil), s.c.buf[1:]...)
				ok = true
			} else {
				v = zero(s.c.elem)
			}
			res[1] = Bool{C: ok}
			k := 0
			for i, is := range instr.States {
				if is.Dir == types.RecvOnly {
					if i == chosen {
						recvVals[k] = v
					}
					k++
				}
			}
		}
	}
	res = append(res, recvVals...)
	return res
}

func (m *Machine) panicString(v Value) string {
	itf, ok := v.(Iface)
	if !ok {
		return describe(v)
	}
	if itf.T == nil {
		return "nil"
	}
	switch x := itf.V.(type) {
	case Str:
		if types.Identical(itf.T, m.prog.runtimeErrorString) {
			return "runtime error: " + describe(x)
		}
		return describe(x)
	}
	// error values: try Error()
	if s, ok := m.tryErrorString(itf); ok {
		return s
	}
	return fmt.Sprintf("%s %s", itf.T, describe(itf.V))
}
