package main

import (
	"fmt"
	"go/token"
	"go/types"
	"sort"

	"golang.org/x/tools/go/ssa"
)

// boundsCheck branches on 0 <= i < n (i given as 64-bit Int, unsigned compare
// covers negatives) and raises the Go run-time panic on the failing side.
func (m *Machine) boundsCheck(i Int, n int, what string) {
	if i.T == nil {
		if i.C >= uint64(n) {
			m.panicRuntime(fmt.Sprintf("index out of range [%d] with length %d", int64(i.C), n))
		}
		return
	}
	ok := m.ts.Cmp(OpUlt, i.T, m.ts.Const(64, uint64(n)))
	if !m.decide(ok) {
		m.panicRuntime(fmt.Sprintf("index out of range [sym] with length %d", n))
	}
}

func (m *Machine) idx64(v Value, t types.Type) Int {
	x := v.(Int)
	w, signed := intWidth(t)
	return m.intConvW(x, w, signed, 64)
}

func onlyLoads(v ssa.Value) bool {
	refs := v.Referrers()
	if refs == nil || len(*refs) == 0 {
		return false
	}
	for _, r := range *refs {
		u, ok := r.(*ssa.UnOp)
		if !ok || u.Op != token.MUL {
			if _, ok := r.(*ssa.DebugRef); ok {
				continue
			}
			return false
		}
	}
	return true
}

func (m *Machine) indexAddr(fr *frame, instr *ssa.IndexAddr) Value {
	x := fr.get(instr.X)
	idx := m.idx64(fr.get(instr.Index), instr.Index.Type())
	var a []Value
	switch x := x.(type) {
	case Slice:
		a = x.A
	case *Value:
		if x == nil {
			m.panicRuntime("invalid memory address or nil pointer dereference")
		}
		a = []Value((*x).(Array))
	default:
		panic(fmt.Sprintf("IndexAddr on %T", x))
	}
	m.boundsCheck(idx, len(a), "index")
	if idx.T != nil {
		if onlyLoads(instr) && scalarElems(a) {
			return SymElem{A: a, Idx: idx.T, W: elemWidth(instr.Type().Underlying().(*types.Pointer).Elem())}
		}
		c := m.concInt(idx, 64, "element address")
		return &a[c]
	}
	return &a[idx.C]
}

func scalarElems(a []Value) bool {
	if len(a) == 0 {
		return false
	}
	switch a[0].(type) {
	case Int, Bool:
		return true
	}
	return false
}

// symSelect reads a[idx] for Bool elements and a symbolic idx already known to be in range.
func (m *Machine) symSelect(a []Value, idx *Term) Value {
	ts := m.ts
	res := m.bterm(a[len(a)-1].(Bool))
	for i := len(a) - 2; i >= 0; i-- {
		res = ts.Ite(ts.Eq(idx, ts.Const(64, uint64(i))), m.bterm(a[i].(Bool)), res)
	}
	return mkBool(res)
}

// symSelectW is symSelect with the element width known from the static type.
func (m *Machine) symSelectW(a []Value, idx *Term, w uint8) Value {
	ts := m.ts
	if w == 0 {
		return m.symSelect(a, idx)
	}
	allConc := true
	for _, e := range a {
		if e.(Int).T != nil {
			allConc = false
			break
		}
	}
	if allConc && len(a) > 2 {
		vals := make([]uint64, len(a))
		for i, e := range a {
			vals[i] = e.(Int).C
		}
		// index narrowed to the smallest width covering the table
		iw := uint8(8)
		for (1 << iw) < len(a) {
			iw += 8
		}
		tb := ts.GetTable("tbl", iw, w, vals, 0)
		return mkInt(ts.TableLookup(tb, ts.Extract(idx, iw-1, 0)))
	}
	res := m.term(a[len(a)-1].(Int), w)
	for i := len(a) - 2; i >= 0; i-- {
		res = ts.Ite(ts.Eq(idx, ts.Const(64, uint64(i))), m.term(a[i].(Int), w), res)
	}
	return mkInt(res)
}

func elemWidth(t types.Type) uint8 {
	if b, ok := t.Underlying().(*types.Basic); ok {
		if b.Info()&types.IsInteger != 0 {
			w, _ := intWidth(b)
			return w
		}
	}
	return 0
}

func (m *Machine) index(fr *frame, instr *ssa.Index) Value {
	x := fr.get(instr.X)
	idx := m.idx64(fr.get(instr.Index), instr.Index.Type())
	switch x := x.(type) {
	case Array:
		m.boundsCheck(idx, len(x), "index")
		if idx.T != nil {
			if scalarElems(x) {
				return m.symSelectW(x, idx.T, elemWidth(instr.Type()))
			}
			c := m.concInt(idx, 64, "array index")
			return copyVal(x[c])
		}
		return copyVal(x[idx.C])
	case Str:
		m.boundsCheck(idx, x.Len(), "index")
		if idx.T != nil {
			bs := x.Bytes()
			a := make([]Value, len(bs))
			for i, b := range bs {
				a[i] = b
			}
			return m.symSelectW(a, idx.T, 8)
		}
		return x.At(int(idx.C))
	}
	panic(fmt.Sprintf("Index on %T", x))
}

// symStrSlice handles s[lo:hi] on a string when lo/hi are symbolic but hi-lo is a
// known constant (strconv's small-number tables): the result has concrete length
// and element-wise selected bytes — no fork over the 100 possible offsets.
func (m *Machine) symStrSlice(fr *frame, instr *ssa.Slice, x Str) (Value, bool) {
	if instr.Low == nil || instr.High == nil || instr.Max != nil {
		return nil, false
	}
	lo := m.idx64(fr.get(instr.Low), instr.Low.Type())
	hi := m.idx64(fr.get(instr.High), instr.High.Type())
	if lo.T == nil {
		return nil, false
	}
	d := m.ts.Bin(OpSub, m.term(hi, 64), lo.T)
	if d.op != OpConst || d.k > 16 || int(d.k) > x.Len() {
		return nil, false
	}
	n := int(d.k)
	// bounds: lo <= len-n (unsigned)
	ok := m.ts.Cmp(OpUle, lo.T, m.ts.Const(64, uint64(x.Len()-n)))
	if !m.decide(ok) {
		m.panicRuntime("slice bounds out of range [sym:sym]")
	}
	bs := x.Bytes()
	a := make([]Value, len(bs))
	for i, b := range bs {
		a[i] = b
	}
	out := make([]Int, n)
	for j := 0; j < n; j++ {
		idx := m.ts.Bin(OpAdd, lo.T, m.ts.Const(64, uint64(j)))
		out[j] = m.symSelectW(a, idx, 8).(Int)
	}
	return normStr(out), true
}

func (m *Machine) sliceOp(fr *frame, instr *ssa.Slice) Value {
	x := fr.get(instr.X)
	if xs, ok := x.(Str); ok {
		if v, ok := m.symStrSlice(fr, instr, xs); ok {
			return v
		}
	}
	var lo, hi, max int64 = 0, -1, -1
	get := func(v ssa.Value) int64 {
		i := m.idx64(fr.get(v), v.Type())
		return int64(m.concInt(i, 64, "slice bound"))
	}
	if instr.Low != nil {
		lo = get(instr.Low)
	}
	if instr.High != nil {
		hi = get(instr.High)
	}
	if instr.Max != nil {
		max = get(instr.Max)
	}
	switch x := x.(type) {
	case Str:
		n := int64(x.Len())
		if hi < 0 {
			if instr.High != nil {
				m.panicRuntime(fmt.Sprintf("slice bounds out of range [:%d]", hi))
			}
			hi = n
		}
		if hi > n {
			m.panicRuntime(fmt.Sprintf("slice bounds out of range [:%d] with length %d", hi, n))
		}
		if lo < 0 || lo > hi {
			m.panicRuntime(fmt.Sprintf("slice bounds out of range [%d:%d]", lo, hi))
		}
		return x.Sub(int(lo), int(hi))
	case Slice:
		return Slice{A: m.sliceHost(x.A, lo, hi, max, instr)}
	case *Value:
		if x == nil {
			m.panicRuntime("invalid memory address or nil pointer dereference")
		}
		a := []Value((*x).(Array))
		return Slice{A: m.sliceHost(a, lo, hi, max, instr)}
	}
	panic(fmt.Sprintf("Slice on %T", x))
}

func (m *Machine) sliceHost(a []Value, lo, hi, max int64, instr *ssa.Slice) []Value {
	c := int64(cap(a))
	if max < 0 {
		if instr.Max != nil {
			m.panicRuntime(fmt.Sprintf("slice bounds out of range [::%d]", max))
		}
		max = c
	}
	if hi < 0 {
		if instr.High != nil {
			m.panicRuntime(fmt.Sprintf("slice bounds out of range [:%d]", hi))
		}
		hi = int64(len(a))
	}
	if max > c {
		m.panicRuntime(fmt.Sprintf("slice bounds out of range [::%d] with capacity %d", max, c))
	}
	if hi > max {
		m.panicRuntime(fmt.Sprintf("slice bounds out of range [:%d] with capacity %d", hi, max))
	}
	if lo < 0 || lo > hi {
		m.panicRuntime(fmt.Sprintf("slice bounds out of range [%d:%d]", lo, hi))
	}
	if a == nil {
		return nil
	}
	return a[lo:hi:max]
}

// ---------------------------------------------------------------------------
// maps

// mapFind returns the position of key in mp, forking on symbolic equality.
func (m *Machine) mapFind(mp *MapV, key Value) int {
	if mp == nil {
		return -1
	}
	if ks, ok := concKey(key); ok {
		if i, ok := mp.index[ks]; ok {
			return i
		}
		// symbolic stored keys may still equal it
		for i, k := range mp.keys {
			if k == tombstone {
				continue
			}
			if _, conc := concKey(k); conc {
				continue
			}
			if m.branch(m.equals(k, key)) {
				return i
			}
		}
		return -1
	}
	for i, k := range mp.keys {
		if k == tombstone {
			continue
		}
		eq := m.equals(k, key)
		if eq.T == nil {
			if eq.C {
				return i
			}
			continue
		}
		if m.branch(eq) {
			return i
		}
	}
	return -1
}

func (m *Machine) lookup(fr *frame, instr *ssa.Lookup) Value {
	x := fr.get(instr.X)
	switch x := x.(type) {
	case Str:
		idx := m.idx64(fr.get(instr.Index), instr.Index.Type())
		m.boundsCheck(idx, x.Len(), "index")
		if idx.T != nil {
			bs := x.Bytes()
			a := make([]Value, len(bs))
			for i, b := range bs {
				a[i] = b
			}
			return m.symSelectW(a, idx.T, 8)
		}
		return x.At(int(idx.C))
	case *MapV:
		key := fr.get(instr.Index)
		i := m.mapFind(x, key)
		var v Value
		if i >= 0 {
			v = copyVal(x.vals[i])
		} else {
			v = zero(instr.X.Type().Underlying().(*types.Map).Elem())
		}
		if instr.CommaOk {
			return Tuple{v, Bool{C: i >= 0}}
		}
		return v
	}
	panic(fmt.Sprintf("Lookup on %T", x))
}

func (m *Machine) mapUpdate(mp *MapV, key, val Value) {
	i := m.mapFind(mp, key)
	if i >= 0 {
		old := mp.vals[i]
		if m.journalOn {
			m.undo = append(m.undo, func() { mp.vals[i] = old })
		}
		mp.vals[i] = val
		return
	}
	mp.keys = append(mp.keys, key)
	mp.vals = append(mp.vals, val)
	pos := len(mp.keys) - 1
	ks, conc := concKey(key)
	if conc {
		mp.index[ks] = pos
	}
	if m.journalOn {
		m.undo = append(m.undo, func() {
			mp.keys = mp.keys[:pos]
			mp.vals = mp.vals[:pos]
			if conc {
				delete(mp.index, ks)
			}
		})
	}
}

func (m *Machine) mapDelete(mp *MapV, key Value) {
	i := m.mapFind(mp, key)
	if i < 0 {
		return
	}
	oldk, oldv := mp.keys[i], mp.vals[i]
	ks, conc := concKey(oldk)
	mp.keys[i] = tombstone
	mp.vals[i] = nil
	if conc {
		delete(mp.index, ks)
	}
	if m.journalOn {
		m.undo = append(m.undo, func() {
			mp.keys[i], mp.vals[i] = oldk, oldv
			if conc {
				mp.index[ks] = i
			}
		})
	}
}

// mapOrder returns live positions in a deterministic order: sorted by concrete key
// string where possible, insertion order otherwise. (Go's iteration order is
// unspecified; fixing one is a stated abstraction.)
func (mp *MapV) order() []int {
	var pos []int
	allConc := true
	keys := map[int]string{}
	for i, k := range mp.keys {
		if k == tombstone {
			continue
		}
		pos = append(pos, i)
		ks, ok := concKey(k)
		if !ok {
			allConc = false
		}
		keys[i] = ks
	}
	if allConc {
		sort.SliceStable(pos, func(a, b int) bool { return keys[pos[a]] < keys[pos[b]] })
	}
	return pos
}

func (m *Machine) rangeIter(x Value, t types.Type) Value {
	switch x := x.(type) {
	case Str:
		return &RangeIter{kind: 0, str: x}
	case *MapV:
		it := &RangeIter{kind: 1, m: x}
		if x != nil {
			for _, i := range x.order() {
				it.keys = append(it.keys, x.keys[i])
				it.vals = append(it.vals, x.vals[i])
			}
		}
		return it
	}
	panic(fmt.Sprintf("range over %T", x))
}

func (m *Machine) rangeNext(fr *frame, it *RangeIter, instr *ssa.Next) Value {
	if it.kind == 0 {
		if it.pos >= it.str.Len() {
			return Tuple{Bool{C: false}, zeroInt, zeroInt}
		}
		r, n := m.decodeRune(fr, it.str.Sub(it.pos, it.str.Len()))
		p := it.pos
		it.pos += n
		return Tuple{Bool{C: true}, Int{C: uint64(p)}, r}
	}
	for it.pos < len(it.keys) {
		k, v := it.keys[it.pos], it.vals[it.pos]
		it.pos++
		// skip entries deleted during iteration
		if j := m.mapFindExact(it.m, k); j < 0 {
			continue
		} else {
			v = it.m.vals[j]
		}
		return Tuple{Bool{C: true}, k, copyVal(v)}
	}
	tt := instr.Type().(*types.Tuple)
	return Tuple{Bool{C: false}, zero(tt.At(1).Type()), zero(tt.At(2).Type())}
}

// mapFindExact finds the very key object (no symbolic forking): used by iteration.
func (m *Machine) mapFindExact(mp *MapV, key Value) int {
	if ks, ok := concKey(key); ok {
		if i, ok := mp.index[ks]; ok {
			return i
		}
		return -1
	}
	for i, k := range mp.keys {
		if k == tombstone {
			continue
		}
		if _, conc := concKey(k); conc {
			continue
		}
		if eq := m.equals(k, key); eq.T == nil && eq.C {
			return i
		} else if eq.T != nil && eq.T.IsTrue() {
			return i
		}
	}
	// a symbolic key object is found by identity of its terms (equals folds x==x)
	return -1
}

// ---------------------------------------------------------------------------
// builtins

func (m *Machine) callBuiltin(caller *frame, pos token.Pos, fn *ssa.Builtin, args []Value) Value {
	switch fn.Name() {
	case "append":
		if len(args) == 1 {
			return args[0]
		}
		dst := args[0].(Slice)
		var src []Value
		switch s := args[1].(type) {
		case Slice:
			src = s.A
		case Str:
			src = make([]Value, s.Len())
			for i := range src {
				src[i] = s.At(i)
			}
		}
		if len(src) == 0 {
			return dst
		}
		n := len(dst.A)
		if n+len(src) <= cap(dst.A) {
			// write into spare capacity (aliasing semantics as in Go)
			r := dst.A[:n+len(src)]
			snap := make([]Value, len(src))
			for i, v := range src {
				snap[i] = copyVal(v)
			}
			for i, v := range snap {
				m.store(&r[n+i], v)
			}
			return Slice{A: r}
		}
		newcap := cap(dst.A) * 2
		if newcap < n+len(src) {
			newcap = n + len(src)
		}
		if newcap < 4 {
			newcap = 4
		}
		r := make([]Value, n+len(src), newcap)
		for i, v := range dst.A {
			r[i] = copyVal(v)
		}
		for i, v := range src {
			r[n+i] = copyVal(v)
		}
		// zero the spare capacity lazily: elements beyond len are never read before written
		// except through reslicing; fill with the element zero value to be safe.
		if newcap > n+len(src) {
			z := zero(fn.Type().(*types.Signature).Params().At(0).Type().Underlying().(*types.Slice).Elem())
			rr := r[:newcap]
			for i := n + len(src); i < newcap; i++ {
				rr[i] = copyVal(z)
			}
		}
		return Slice{A: r}

	case "copy":
		dst := args[0].(Slice)
		var src []Value
		switch s := args[1].(type) {
		case Slice:
			src = s.A
		case Str:
			src = make([]Value, s.Len())
			for i := range src {
				src[i] = s.At(i)
			}
		}
		n := len(dst.A)
		if len(src) < n {
			n = len(src)
		}
		if n == 0 {
			return Int{C: 0}
		}
		// handle overlap like memmove
		tmp := make([]Value, n)
		for i := 0; i < n; i++ {
			tmp[i] = copyVal(src[i]) // aggregates are reference-like host objects: snapshot them
		}
		for i := 0; i < n; i++ {
			m.store(&dst.A[i], tmp[i])
		}
		return Int{C: uint64(n)}

	case "len":
		switch x := args[0].(type) {
		case Str:
			return Int{C: uint64(x.Len())}
		case Slice:
			return Int{C: uint64(len(x.A))}
		case Array:
			return Int{C: uint64(len(x))}
		case *Value:
			if x == nil {
				// len(*[N]T)(nil) is N; recover it from the type
				at := fn.Type().(*types.Signature).Params().At(0).Type().Underlying().(*types.Pointer).Elem().Underlying().(*types.Array)
				return Int{C: uint64(at.Len())}
			}
			return Int{C: uint64(len((*x).(Array)))}
		case *MapV:
			return Int{C: uint64(x.Len())}
		case *ChanV:
			if x == nil {
				return Int{C: 0}
			}
			return Int{C: uint64(len(x.buf))}
		}
		panic(fmt.Sprintf("len of %T", args[0]))

	case "cap":
		switch x := args[0].(type) {
		case Slice:
			return Int{C: uint64(cap(x.A))}
		case Array:
			return Int{C: uint64(len(x))}
		case *Value:
			return Int{C: uint64(len((*x).(Array)))}
		case *ChanV:
			if x == nil {
				return Int{C: 0}
			}
			return Int{C: uint64(x.cap)}
		}
		panic(fmt.Sprintf("cap of %T", args[0]))

	case "delete":
		mp := args[0].(*MapV)
		if mp != nil {
			m.mapDelete(mp, args[1])
		}
		return nil

	case "clear":
		switch x := args[0].(type) {
		case *MapV:
			if x != nil {
				for _, i := range x.order() {
					m.mapDelete(x, x.keys[i])
				}
			}
		case Slice:
			if len(x.A) > 0 {
				z := zero(fn.Type().(*types.Signature).Params().At(0).Type().Underlying().(*types.Slice).Elem())
				for i := range x.A {
					m.store(&x.A[i], z)
				}
			}
		}
		return nil

	case "close":
		m.chanClose(args[0].(*ChanV))
		return nil

	case "panic":
		panic(goPanic{args[0]})

	case "recover":
		return m.doRecover(caller)

	case "print", "println":
		return nil

	case "min", "max":
		sig := fn.Type().(*types.Signature)
		t := sig.Params().At(0).Type()
		acc := args[0]
		for _, a := range args[1:] {
			var less Bool
			if fn.Name() == "min" {
				less = m.binop(token.LSS, t, a, acc).(Bool)
			} else {
				less = m.binop(token.GTR, t, a, acc).(Bool)
			}
			if m.branch(less) {
				acc = a
			}
		}
		return acc

	case "SliceData":
		sl := args[0].(Slice)
		if cap(sl.A) == 0 {
			return (*Value)(nil)
		}
		full := sl.A[:1]
		p := &full[0]
		m.ptrOrigin[p] = sl.A[:cap(sl.A)]
		return p

	case "StringData":
		st := args[0].(Str)
		if st.Len() == 0 {
			return (*Value)(nil)
		}
		bs := st.Bytes()
		a := make([]Value, len(bs))
		for i, b := range bs {
			a[i] = b
		}
		m.ptrOrigin[&a[0]] = a
		return &a[0]

	case "String":
		p := args[0].(*Value)
		n := int(m.concInt(args[1].(Int), 64, "unsafe.String len"))
		if n == 0 {
			return Str{}
		}
		a, ok := m.ptrOrigin[p]
		if !ok || n > len(a) {
			unsupported("unsafe.String on a pointer not obtained from unsafe.SliceData/StringData")
		}
		bs := make([]Int, n)
		for i := 0; i < n; i++ {
			bs[i] = a[i].(Int)
		}
		return normStr(bs)

	case "Slice":
		p := args[0].(*Value)
		n := int(m.concInt(args[1].(Int), 64, "unsafe.Slice len"))
		if p == nil {
			return Slice{}
		}
		a, ok := m.ptrOrigin[p]
		if !ok || n > len(a) {
			unsupported("unsafe.Slice on a pointer not obtained from unsafe.SliceData/StringData")
		}
		return Slice{A: a[:n:n]}

	case "ssa:wrapnilchk":
		recv := args[0]
		if isNilValue(recv) {
			m.panicRuntime(fmt.Sprintf("value method %s.%s called using nil pointer", describe(args[1]), describe(args[2])))
		}
		return recv
	}
	panic("unknown built-in: " + fn.Name())
}
