package main

import (
	hostreflect "reflect"
	"fmt"
	"go/token"
	"go/types"
	"math"
	"strconv"
	"strings"

	"golang.org/x/tools/go/ssa"
)

func float64bits(f float64) uint64     { return math.Float64bits(f) }
func float64frombits(b uint64) float64 { return math.Float64frombits(b) }
func float32bits(f float32) uint32     { return math.Float32bits(f) }
func float32frombits(b uint32) float32 { return math.Float32frombits(b) }

func (m *Machine) field(p Value, i int) *Value {
	pp := p.(*Value)
	if pp == nil {
		m.panicRuntime("invalid memory address or nil pointer dereference")
	}
	return &(*pp).(Struct)[i]
}

func (m *Machine) intAt(p *Value) uint64 {
	x := (*p).(Int)
	if x.T != nil {
		unsupported("symbolic synchronisation word")
	}
	return x.C
}

func registerSync() {
	// sync.Mutex{state int32; sema uint32}: state 0 = free, 1 = held
	reg("(*sync.Mutex).Lock", func(m *Machine, fr *frame, a []Value) Value {
		st := m.field(a[0], 0)
		m.wait("Mutex.Lock", func() bool { return m.intAt(st) == 0 })
		m.store(st, Int{C: 1})
		return nil
	})
	reg("(*sync.Mutex).TryLock", func(m *Machine, fr *frame, a []Value) Value {
		st := m.field(a[0], 0)
		if m.intAt(st) == 0 {
			m.store(st, Int{C: 1})
			return Bool{C: true}
		}
		return Bool{C: false}
	})
	reg("(*sync.Mutex).Unlock", func(m *Machine, fr *frame, a []Value) Value {
		st := m.field(a[0], 0)
		if m.intAt(st) == 0 {
			m.pathOutcome("fatal", "sync: unlock of unlocked mutex")
			m.fatalGo("sync: unlock of unlocked mutex")
		}
		m.store(st, Int{C: 0})
		return nil
	})
	// sync.RWMutex{w Mutex; writerSem, readerSem uint32; ...}: writerSem = writer held, readerSem = #readers
	reg("(*sync.RWMutex).Lock", func(m *Machine, fr *frame, a []Value) Value {
		w, r := m.field(a[0], 1), m.field(a[0], 2)
		m.wait("RWMutex.Lock", func() bool { return m.intAt(w) == 0 && m.intAt(r) == 0 })
		m.store(w, Int{C: 1})
		return nil
	})
	reg("(*sync.RWMutex).Unlock", func(m *Machine, fr *frame, a []Value) Value {
		w := m.field(a[0], 1)
		if m.intAt(w) == 0 {
			m.fatalGo("sync: Unlock of unlocked RWMutex")
		}
		m.store(w, Int{C: 0})
		return nil
	})
	reg("(*sync.RWMutex).RLock", func(m *Machine, fr *frame, a []Value) Value {
		w, r := m.field(a[0], 1), m.field(a[0], 2)
		m.wait("RWMutex.RLock", func() bool { return m.intAt(w) == 0 })
		m.store(r, Int{C: m.intAt(r) + 1})
		return nil
	})
	reg("(*sync.RWMutex).RUnlock", func(m *Machine, fr *frame, a []Value) Value {
		r := m.field(a[0], 2)
		if m.intAt(r) == 0 {
			m.fatalGo("sync: RUnlock of unlocked RWMutex")
		}
		m.store(r, Int{C: m.intAt(r) - 1})
		return nil
	})
	// sync.WaitGroup{noCopy; state atomic.Uint64; sema uint32}: sema used as the counter
	reg("(*sync.WaitGroup).Add", func(m *Machine, fr *frame, a []Value) Value {
		c := m.field(a[0], 2)
		d := m.concInt(a[1].(Int), 64, "WaitGroup.Add")
		n := int64(m.intAt(c)) + int64(d)
		if n < 0 {
			panic(goPanic{m.plainError("sync: negative WaitGroup counter")})
		}
		m.store(c, Int{C: uint64(n)})
		return nil
	})
	reg("(*sync.WaitGroup).Done", func(m *Machine, fr *frame, a []Value) Value {
		c := m.field(a[0], 2)
		n := int64(m.intAt(c)) - 1
		if n < 0 {
			panic(goPanic{m.plainError("sync: negative WaitGroup counter")})
		}
		m.store(c, Int{C: uint64(n)})
		return nil
	})
	reg("(*sync.WaitGroup).Wait", func(m *Machine, fr *frame, a []Value) Value {
		c := m.field(a[0], 2)
		m.wait("WaitGroup.Wait", func() bool { return m.intAt(c) == 0 })
		return nil
	})
	reg("(*sync.Pool).Get", func(m *Machine, fr *frame, a []Value) Value {
		// Pool{noCopy, local, localSize, victim, victimSize, New}
		st := (*a[0].(*Value)).(Struct)
		nw := st[len(st)-1]
		if isNilValue(nw) {
			return Iface{}
		}
		return m.call(fr, token.NoPos, nw, nil)
	})
	reg("(*sync.Pool).Put", func(m *Machine, fr *frame, a []Value) Value { return nil })

	// sync/atomic primitives
	for _, t := range []string{"Int32", "Int64", "Uint32", "Uint64", "Uintptr"} {
		w := uint8(64)
		if strings.HasSuffix(t, "32") {
			w = 32
		}
		reg("sync/atomic.Load"+t, func(m *Machine, fr *frame, a []Value) Value { return m.load(a[0].(*Value)) })
		reg("sync/atomic.Store"+t, func(m *Machine, fr *frame, a []Value) Value {
			m.store(a[0].(*Value), a[1])
			return nil
		})
		reg("sync/atomic.Swap"+t, func(m *Machine, fr *frame, a []Value) Value {
			old := m.load(a[0].(*Value))
			m.store(a[0].(*Value), a[1])
			return old
		})
		ww := w
		reg("sync/atomic.Add"+t, func(m *Machine, fr *frame, a []Value) Value {
			old := m.load(a[0].(*Value)).(Int)
			d := a[1].(Int)
			var nv Int
			if old.T == nil && d.T == nil {
				nv = Int{C: (old.C + d.C) & mask(ww)}
			} else {
				nv = mkInt(m.ts.Bin(OpAdd, m.term(old, ww), m.term(d, ww)))
			}
			m.store(a[0].(*Value), nv)
			return nv
		})
		reg("sync/atomic.CompareAndSwap"+t, func(m *Machine, fr *frame, a []Value) Value {
			old := m.load(a[0].(*Value))
			if m.branch(m.equals(old, a[1])) {
				m.store(a[0].(*Value), a[2])
				return Bool{C: true}
			}
			return Bool{C: false}
		})
	}
	reg("sync/atomic.LoadPointer", func(m *Machine, fr *frame, a []Value) Value { return m.load(a[0].(*Value)) })
	reg("sync/atomic.StorePointer", func(m *Machine, fr *frame, a []Value) Value {
		m.store(a[0].(*Value), a[1])
		return nil
	})
	reg("sync/atomic.SwapPointer", func(m *Machine, fr *frame, a []Value) Value {
		old := m.load(a[0].(*Value))
		m.store(a[0].(*Value), a[1])
		return old
	})
	reg("sync/atomic.CompareAndSwapPointer", func(m *Machine, fr *frame, a []Value) Value {
		old := m.load(a[0].(*Value))
		if m.branch(m.equals(old, a[1])) {
			m.store(a[0].(*Value), a[2])
			return Bool{C: true}
		}
		return Bool{C: false}
	})
	// atomic.Value{v any}
	reg("(*sync/atomic.Value).Load", func(m *Machine, fr *frame, a []Value) Value { return m.load(m.field(a[0], 0)) })
	reg("(*sync/atomic.Value).Store", func(m *Machine, fr *frame, a []Value) Value {
		m.store(m.field(a[0], 0), a[1])
		return nil
	})
}

// fatalGo models a Go "fatal error" (not recoverable): the path ends.
func (m *Machine) fatalGo(msg string) {
	m.pathOutcome("fatal", msg)
	m.panicViolationLabel("fatal", msg)
	panic(pathAbort{})
}

func (m *Machine) panicViolationLabel(label, msg string) {
	if m.concrete {
		m.cur.violations = append(m.cur.violations, Violation{Label: label, Msg: msg, Entry: m.entry.Func})
		return
	}
	if !m.ensureModel() {
		if !m.lastUnsat {
			m.ex.addUnknownObligation(label)
		}
		return
	}
	m.ex.noteObligation(true, false)
	m.recordViolation(label, msg, m.model)
}

// ---------------------------------------------------------------------------
// fmt

// formatted pieces may contain symbolic bytes (only through %s / %v of strings).
func (m *Machine) sprintf(fr *frame, format string, args []Value) Str {
	out := Str{}
	emit := func(s string) { out = concatStr(out, Str{S: s}) }
	ai := 0
	for i := 0; i < len(format); i++ {
		c := format[i]
		if c != '%' {
			emit(string(c))
			continue
		}
		i++
		if i >= len(format) {
			emit("%!(NOVERB)")
			break
		}
		// flags / width / precision are parsed and applied for concrete integers only
		spec := "%"
		for i < len(format) && strings.IndexByte("+-# 0123456789.", format[i]) >= 0 {
			spec += string(format[i])
			i++
		}
		if i >= len(format) {
			break
		}
		verb := format[i]
		if verb == '%' {
			emit("%")
			continue
		}
		if ai >= len(args) {
			emit("%!" + string(verb) + "(MISSING)")
			continue
		}
		arg := args[ai]
		ai++
		out = concatStr(out, m.formatArg(fr, spec, verb, arg))
	}
	if ai < len(args) {
		emit("%!(EXTRA)")
	}
	return out
}

func (m *Machine) formatArg(fr *frame, spec string, verb byte, arg Value) Str {
	itf, ok := arg.(Iface)
	if !ok {
		return Str{S: "?"}
	}
	if itf.T == nil {
		if verb == 'v' || verb == 's' {
			return Str{S: "<nil>"}
		}
		return Str{S: "%!" + string(verb) + "(<nil>)"}
	}
	if verb == 'T' {
		return Str{S: itf.T.String()}
	}
	// error / Stringer
	if verb == 'v' || verb == 's' || verb == 'q' || verb == 'w' {
		if m.implements(itf.T, errorIface) {
			if f := m.prog.ssa.LookupMethod(itf.T, nil, "Error"); f != nil {
				if p, isPtr := itf.V.(*Value); isPtr && p == nil {
					return Str{S: "<nil>"}
				}
				s := m.call(fr, token.NoPos, f, []Value{itf.V}).(Str)
				if verb == 'q' {
					return m.quoteStr(s)
				}
				return s
			}
		}
		if ms := m.prog.ssa.MethodSets.MethodSet(itf.T); ms != nil {
			if sel := ms.Lookup(nil, "String"); sel != nil {
				if sig := sel.Type().(*types.Signature); sig.Params().Len() == 0 && sig.Results().Len() == 1 {
					if b, ok := sig.Results().At(0).Type().Underlying().(*types.Basic); ok && b.Kind() == types.String {
						f := m.prog.ssa.MethodValue(sel)
						if f != nil {
							s := m.call(fr, token.NoPos, f, []Value{itf.V}).(Str)
							if verb == 'q' {
								return m.quoteStr(s)
							}
							return s
						}
					}
				}
			}
		}
	}
	switch x := itf.V.(type) {
	case Str:
		switch verb {
		case 'v', 's':
			return x
		case 'q':
			return m.quoteStr(x)
		case 'x':
			if x.B == nil {
				return Str{S: fmt.Sprintf("%x", x.S)}
			}
		}
		return Str{S: "<sym>"}
	case Int:
		if x.T != nil {
			return Str{S: "<sym-int>"}
		}
		b, _ := itf.T.Underlying().(*types.Basic)
		w, signed := intWidth(b)
		f := spec + string(verb)
		if verb == 'v' {
			f = spec + "d"
		}
		if verb == 's' {
			return Str{S: "%!s(int=" + strconv.FormatUint(x.C, 10) + ")"}
		}
		if signed {
			if verb == 'c' || verb == 'q' || verb == 'U' {
				return Str{S: fmt.Sprintf(f, rune(sext64(x.C, w)))}
			}
			return Str{S: fmt.Sprintf(f, sext64(x.C, w))}
		}
		if w == 8 && verb == 'c' {
			return Str{S: fmt.Sprintf(f, rune(x.C))}
		}
		return Str{S: fmt.Sprintf(f, x.C)}
	case Bool:
		if x.T != nil {
			return Str{S: "<sym-bool>"}
		}
		return Str{S: strconv.FormatBool(x.C)}
	case Float:
		f := spec + string(verb)
		return Str{S: fmt.Sprintf(f, float64(x))}
	case Slice:
		if sl, ok := itf.T.Underlying().(*types.Slice); ok && isByteType(sl.Elem()) {
			s := normStr(sliceBytes(x))
			switch verb {
			case 's':
				return s
			case 'q':
				return m.quoteStr(s)
			}
		}
		var parts []string
		for _, e := range x.A {
			parts = append(parts, describe(e))
		}
		return Str{S: "[" + strings.Join(parts, " ") + "]"}
	}
	return Str{S: "<" + itf.T.String() + ">"}
}

func (m *Machine) quoteStr(s Str) Str {
	if s.B == nil {
		return Str{S: strconv.Quote(s.S)}
	}
	return concatStr(concatStr(Str{S: "\""}, s), Str{S: "\""})
}

func (m *Machine) newError(msg Str) Value {
	p := new(Value)
	*p = Struct{msg}
	return Iface{T: m.prog.errorsErrorString, V: p}
}

func (m *Machine) varargs(v Value) []Value { return v.(Slice).A }

func registerFmt() {
	reg("fmt.Sprintf", func(m *Machine, fr *frame, a []Value) Value {
		return m.sprintf(fr, m.concStr(a[0], "fmt format"), m.varargs(a[1]))
	})
	reg("fmt.Errorf", func(m *Machine, fr *frame, a []Value) Value {
		format := m.concStr(a[0], "fmt format")
		args := m.varargs(a[1])
		msg := m.sprintf(fr, format, args)
		if idx := strings.Index(format, "%w"); idx >= 0 && m.prog.fmtWrapError != nil {
			// find the %w operand
			n := 0
			for i := 0; i+1 < len(format); i++ {
				if format[i] == '%' {
					if format[i+1] == '%' {
						i++
						continue
					}
					j := i + 1
					for j < len(format) && strings.IndexByte("+-# 0123456789.", format[j]) >= 0 {
						j++
					}
					if j < len(format) && format[j] == 'w' {
						if n < len(args) {
							p := new(Value)
							*p = Struct{msg, args[n]}
							return Iface{T: m.prog.fmtWrapError, V: p}
						}
					}
					n++
					i = j
				}
			}
		}
		return m.newError(msg)
	})
	sprint := func(m *Machine, fr *frame, args []Value, ln bool) Str {
		out := Str{}
		for i, a := range args {
			if i > 0 && ln {
				out = concatStr(out, Str{S: " "})
			}
			out = concatStr(out, m.formatArg(fr, "%", 'v', a))
		}
		if ln {
			out = concatStr(out, Str{S: "\n"})
		}
		return out
	}
	reg("fmt.Sprint", func(m *Machine, fr *frame, a []Value) Value { return sprint(m, fr, m.varargs(a[0]), false) })
	reg("fmt.Sprintln", func(m *Machine, fr *frame, a []Value) Value { return sprint(m, fr, m.varargs(a[0]), true) })
	writeTo := func(m *Machine, fr *frame, w Value, s Str) Value {
		itf := w.(Iface)
		f := m.prog.ssa.LookupMethod(itf.T, nil, "Write")
		bs := s.Bytes()
		sl := make([]Value, len(bs))
		for i, b := range bs {
			sl[i] = b
		}
		return m.call(fr, token.NoPos, f, []Value{itf.V, Slice{A: sl}})
	}
	reg("fmt.Fprintf", func(m *Machine, fr *frame, a []Value) Value {
		return writeTo(m, fr, a[0], m.sprintf(fr, m.concStr(a[1], "fmt format"), m.varargs(a[2])))
	})
	reg("fmt.Fprint", func(m *Machine, fr *frame, a []Value) Value {
		return writeTo(m, fr, a[0], sprint(m, fr, m.varargs(a[1]), false))
	})
	reg("fmt.Fprintln", func(m *Machine, fr *frame, a []Value) Value {
		return writeTo(m, fr, a[0], sprint(m, fr, m.varargs(a[1]), true))
	})
	reg("fmt.Println", func(m *Machine, fr *frame, a []Value) Value { return Tuple{Int{}, Iface{}} })
	reg("fmt.Printf", func(m *Machine, fr *frame, a []Value) Value { return Tuple{Int{}, Iface{}} })
	// log
	logf := func(m *Machine, fr *frame, format string, args []Value) {
		s := m.sprintf(fr, format, args)
		m.logMsgs = append(m.logMsgs, describe(s))
	}
	reg("log.Printf", func(m *Machine, fr *frame, a []Value) Value {
		logf(m, fr, m.concStr(a[0], "log format"), m.varargs(a[1]))
		return nil
	})
	reg("(*log.Logger).Printf", func(m *Machine, fr *frame, a []Value) Value {
		logf(m, fr, m.concStr(a[1], "log format"), m.varargs(a[2]))
		return nil
	})
	reg("log.Println", func(m *Machine, fr *frame, a []Value) Value { return nil })
	reg("log.Print", func(m *Machine, fr *frame, a []Value) Value { return nil })
	reg("log.Default", func(m *Machine, fr *frame, a []Value) Value { return new(Value) })
}

// ---------------------------------------------------------------------------

func (m *Machine) unwrapErr(fr *frame, e Iface) []Iface {
	if e.T == nil {
		return nil
	}
	ms := m.prog.ssa.MethodSets.MethodSet(e.T)
	sel := ms.Lookup(nil, "Unwrap")
	if sel == nil {
		return nil
	}
	sig := sel.Type().(*types.Signature)
	if sig.Params().Len() != 0 || sig.Results().Len() != 1 {
		return nil
	}
	f := m.prog.ssa.MethodValue(sel)
	if f == nil {
		return nil
	}
	r := m.call(fr, token.NoPos, f, []Value{e.V})
	switch r := r.(type) {
	case Iface:
		if r.T == nil {
			return nil
		}
		return []Iface{r}
	case Slice:
		var out []Iface
		for _, x := range r.A {
			if xi := x.(Iface); xi.T != nil {
				out = append(out, xi)
			}
		}
		return out
	}
	return nil
}

func (m *Machine) errorsIs(fr *frame, err, target Iface) bool {
	if err.T == nil || target.T == nil {
		return err.T == nil && target.T == nil
	}
	comparable := types.Comparable(target.T)
	var walk func(e Iface) bool
	walk = func(e Iface) bool {
		if comparable && types.Identical(e.T, target.T) && m.branch(m.equals(e, target)) {
			return true
		}
		ms := m.prog.ssa.MethodSets.MethodSet(e.T)
		if sel := ms.Lookup(nil, "Is"); sel != nil {
			sig := sel.Type().(*types.Signature)
			if sig.Params().Len() == 1 && sig.Results().Len() == 1 && types.Identical(sig.Params().At(0).Type(), types.Universe.Lookup("error").Type()) {
				if f := m.prog.ssa.MethodValue(sel); f != nil {
					if m.branch(m.call(fr, token.NoPos, f, []Value{e.V, target}).(Bool)) {
						return true
					}
				}
			}
		}
		for _, u := range m.unwrapErr(fr, e) {
			if walk(u) {
				return true
			}
		}
		return false
	}
	return walk(err)
}

func registerMisc() {
	reg("errors.Is", func(m *Machine, fr *frame, a []Value) Value {
		return Bool{C: m.errorsIs(fr, a[0].(Iface), a[1].(Iface))}
	})
	reg("errors.As", func(m *Machine, fr *frame, a []Value) Value {
		err := a[0].(Iface)
		tgt := a[1].(Iface)
		if tgt.T == nil {
			panic(goPanic{m.plainError("errors: target cannot be nil")})
		}
		pt, ok := tgt.T.Underlying().(*types.Pointer)
		if !ok {
			panic(goPanic{m.plainError("errors: target must be a non-nil pointer")})
		}
		elem := pt.Elem()
		dst := tgt.V.(*Value)
		var walk func(e Iface) bool
		walk = func(e Iface) bool {
			if e.T == nil {
				return false
			}
			if ie, isIface := elem.Underlying().(*types.Interface); isIface {
				if m.implements(e.T, ie) {
					m.store(dst, e)
					return true
				}
			} else if types.Identical(e.T, elem) {
				m.store(dst, e.V)
				return true
			}
			for _, u := range m.unwrapErr(fr, e) {
				if walk(u) {
					return true
				}
			}
			return false
		}
		return Bool{C: walk(err)}
	})
	reg("errors.New", func(m *Machine, fr *frame, a []Value) Value { return m.newError(a[0].(Str)) })

	// time
	reg("time.Now", func(m *Machine, fr *frame, a []Value) Value {
		// 2024-01-02 03:04:05 UTC, no monotonic reading: wall=0, ext=seconds since year 1
		const secs = 63839761445
		return Struct{Int{C: 0}, Int{C: secs}, (*Value)(nil)}
	})
	// the local time zone is UTC: never read the zone database
	reg("time.initLocal", func(m *Machine, fr *frame, a []Value) Value { return nil })
	reg("time.runtimeNano", func(m *Machine, fr *frame, a []Value) Value { return Int{C: 0} })
	reg("time.Sleep", func(m *Machine, fr *frame, a []Value) Value {
		m.idle = 0
		m.yieldOnce()
		return nil
	})
	reg("time.AfterFunc", func(m *Machine, fr *frame, a []Value) Value {
		p := new(Value)
		*p = zero(m.prog.lookupType("time", "Timer"))
		m.timersCreated++
		return p
	})
	reg("time.NewTimer", func(m *Machine, fr *frame, a []Value) Value {
		p := new(Value)
		tt := m.prog.lookupType("time", "Timer")
		st := zero(tt).(Struct)
		m.chanSeq++
		st[0] = &ChanV{cap: 1, elem: m.prog.lookupType("time", "Time"), id: m.chanSeq}
		*p = st
		m.timersCreated++
		return p
	})
	reg("time.After", func(m *Machine, fr *frame, a []Value) Value {
		m.chanSeq++
		return &ChanV{cap: 1, elem: m.prog.lookupType("time", "Time"), id: m.chanSeq}
	})
	reg("(*time.Timer).Stop", func(m *Machine, fr *frame, a []Value) Value { return Bool{C: true} })
	reg("(*time.Timer).Reset", func(m *Machine, fr *frame, a []Value) Value { return Bool{C: true} })

	// sort.Slice via the real less closure
	reg("sort.Slice", func(m *Machine, fr *frame, a []Value) Value {
		m.sortSlice(fr, a[0].(Iface).V.(Slice), a[1], false)
		return nil
	})
	reg("sort.SliceStable", func(m *Machine, fr *frame, a []Value) Value {
		m.sortSlice(fr, a[0].(Iface).V.(Slice), a[1], true)
		return nil
	})
	// reflect: only ValueOf(x).Pointer() (object identity of slices, maps, pointers)
	reg("reflect.ValueOf", func(m *Machine, fr *frame, a []Value) Value {
		return Struct{a[0], UnsafePtr{}, Int{}}
	})
	reg("(reflect.Value).Pointer", func(m *Machine, fr *frame, a []Value) Value {
		itf, ok := a[0].(Struct)[0].(Iface)
		if !ok {
			unsupported("reflect.Value.Pointer on a value not built by reflect.ValueOf")
		}
		switch v := itf.V.(type) {
		case Slice:
			return Int{C: uint64(hostreflect.ValueOf(v.A).Pointer())}
		case *Value:
			return Int{C: uint64(hostreflect.ValueOf(v).Pointer())}
		case *MapV:
			return Int{C: uint64(hostreflect.ValueOf(v).Pointer())}
		case *ChanV:
			return Int{C: uint64(hostreflect.ValueOf(v).Pointer())}
		}
		unsupported("reflect.Value.Pointer on %T", itf.V)
		return nil
	})
	// crypto/tls: the record layer is not modelled. Reads pull bytes from the underlying
	// conn (so that what the TLS layer would consume is really consumed) and fail; writes fail.
	tlsUnder := func(m *Machine, recv Value) Iface {
		st := (*recv.(*Value)).(Struct)
		tt := m.prog.lookupType("crypto/tls", "Conn").Underlying().(*types.Struct)
		for i := 0; i < tt.NumFields(); i++ {
			if tt.Field(i).Name() == "conn" {
				return st[i].(Iface)
			}
		}
		unsupported("crypto/tls.Conn has no conn field")
		return Iface{}
	}
	tlsErr := func(m *Machine) Value { return m.newError(Str{S: "verif: TLS record layer not modelled"}) }
	reg("(*crypto/tls.Conn).Read", func(m *Machine, fr *frame, a []Value) Value {
		under := tlsUnder(m, a[0])
		f := m.prog.ssa.LookupMethod(under.T, nil, "Read")
		buf := a[1].(Slice)
		scratch := make([]Value, len(buf.A))
		for i := range scratch {
			scratch[i] = zeroInt
		}
		m.call(fr, token.NoPos, f, []Value{under.V, Slice{A: scratch}})
		m.tlsReads++
		return Tuple{Int{C: 0}, tlsErr(m)}
	})
	reg("(*crypto/tls.Conn).Write", func(m *Machine, fr *frame, a []Value) Value {
		m.tlsWrites++
		return Tuple{Int{C: 0}, tlsErr(m)}
	})
	reg("(*crypto/tls.Conn).Close", func(m *Machine, fr *frame, a []Value) Value {
		under := tlsUnder(m, a[0])
		f := m.prog.ssa.LookupMethod(under.T, nil, "Close")
		return m.call(fr, token.NoPos, f, []Value{under.V})
	})
	reg("(*crypto/tls.Conn).Handshake", func(m *Machine, fr *frame, a []Value) Value { return tlsErr(m) })
	reg("(*crypto/tls.Conn).HandshakeContext", func(m *Machine, fr *frame, a []Value) Value { return tlsErr(m) })
	reg("(*crypto/tls.Config).Clone", func(m *Machine, fr *frame, a []Value) Value {
		p := a[0].(*Value)
		if p == nil {
			return (*Value)(nil)
		}
		q := new(Value)
		*q = copyVal(*p)
		return q
	})
	reg("os.Getenv", func(m *Machine, fr *frame, a []Value) Value { return Str{} })
}

// sortSlice: insertion sort (stable), calling the interpreted less(i, j).
func (m *Machine) sortSlice(fr *frame, s Slice, less Value, stable bool) {
	n := len(s.A)
	for i := 1; i < n; i++ {
		for j := i; j > 0; j-- {
			r := m.call(fr, token.NoPos, less, []Value{Int{C: uint64(j)}, Int{C: uint64(j - 1)}}).(Bool)
			if !m.branch(r) {
				break
			}
			a, b := copyVal(s.A[j]), copyVal(s.A[j-1])
			m.store(&s.A[j], b)
			m.store(&s.A[j-1], a)
		}
	}
}

var _ = ssa.NewProgram
