package main

// Value model. Scalars are concrete or carry an SMT term; aggregates, pointers,
// maps, channels, closures and interfaces are concrete host objects whose leaves
// may be symbolic. Pointers are host pointers to Value slots (aliasing for free).

import (
	"fmt"
	"go/types"
	"strings"

	"golang.org/x/tools/go/ssa"
)

type Value interface{}

// Int is an integer of statically known width (taken from the SSA type).
// T == nil: concrete value C (masked, zero-extended).
type Int struct {
	T *Term
	C uint64
}

type Bool struct {
	T *Term
	C bool
}

type Float float64

type Complex complex128

// Str is a string of concrete length. B != nil: element-wise possibly symbolic bytes.
type Str struct {
	S string
	B []Int
}

type Struct []Value
type Array []Value

// Slice: A == nil is the nil slice.
type Slice struct {
	A []Value
}

type Tuple []Value

type Iface struct {
	T types.Type // nil: nil interface
	V Value
}

type Closure struct {
	Fn  *ssa.Function
	Env []Value
}

// UnsafePtr wraps a pointer converted to unsafe.Pointer.
type UnsafePtr struct {
	P *Value
}

// SymElem is the result of IndexAddr with a symbolic index whose only uses are loads.
type SymElem struct {
	A   []Value
	Idx *Term // 64-bit
	W   uint8 // element width (0: bool)
}

// MapV is an insertion-ordered association list with a fast index for concrete keys.
type MapV struct {
	keys  []Value
	vals  []Value
	index map[string]int // concrete key string -> position
	ktype types.Type
}

type ChanV struct {
	buf    []Value
	cap    int
	closed bool
	// rendezvous support for unbuffered channels
	recvWaiting int
	elem        types.Type
	id          int
	handoff     int64
}

// RangeIter state for Range/Next.
type RangeIter struct {
	kind int // 0 string, 1 map
	str  Str
	pos  int
	keys []Value
	vals []Value
	m    *MapV
}

func (s Str) Len() int {
	if s.B != nil {
		return len(s.B)
	}
	return len(s.S)
}

func (s Str) At(i int) Int {
	if s.B != nil {
		return s.B[i]
	}
	return Int{C: uint64(s.S[i])}
}

func (s Str) IsConc() bool { return s.B == nil }

func (s Str) Sub(i, j int) Str {
	if s.B != nil {
		return normStr(s.B[i:j])
	}
	return Str{S: s.S[i:j]}
}

// normStr builds a Str from bytes, collapsing to a concrete string when possible.
func normStr(b []Int) Str {
	for _, x := range b {
		if x.T != nil {
			return Str{B: b}
		}
	}
	var sb strings.Builder
	sb.Grow(len(b))
	for _, x := range b {
		sb.WriteByte(byte(x.C))
	}
	return Str{S: sb.String()}
}

func (s Str) Bytes() []Int {
	if s.B != nil {
		return s.B
	}
	r := make([]Int, len(s.S))
	for i := 0; i < len(s.S); i++ {
		r[i] = Int{C: uint64(s.S[i])}
	}
	return r
}

func concatStr(a, b Str) Str {
	if a.B == nil && b.B == nil {
		return Str{S: a.S + b.S}
	}
	if a.Len() == 0 {
		return b
	}
	if b.Len() == 0 {
		return a
	}
	r := make([]Int, 0, a.Len()+b.Len())
	r = append(r, a.Bytes()...)
	r = append(r, b.Bytes()...)
	return Str{B: r}
}

var (
	zeroInt   Value = Int{}
	zeroBool  Value = Bool{}
	zeroStr   Value = Str{}
	zeroFloat Value = Float(0)
)

func intWidth(t types.Type) (w uint8, signed bool) {
	b, ok := t.Underlying().(*types.Basic)
	if !ok {
		panic(fmt.Sprintf("intWidth: not basic: %v", t))
	}
	switch b.Kind() {
	case types.Int, types.Int64, types.UntypedInt:
		return 64, true
	case types.Uint, types.Uint64, types.Uintptr:
		return 64, false
	case types.Int32, types.UntypedRune:
		return 32, true
	case types.Uint32:
		return 32, false
	case types.Int16:
		return 16, true
	case types.Uint16:
		return 16, false
	case types.Int8:
		return 8, true
	case types.Uint8:
		return 8, false
	}
	panic(fmt.Sprintf("intWidth: not an integer type: %v", t))
}

func isIntType(t types.Type) bool {
	b, ok := t.Underlying().(*types.Basic)
	return ok && b.Info()&types.IsInteger != 0
}

// zero returns the zero value of type t.
func zero(t types.Type) Value {
	switch t := t.Underlying().(type) {
	case *types.Basic:
		switch {
		case t.Kind() == types.UnsafePointer:
			return UnsafePtr{}
		case t.Info()&types.IsInteger != 0:
			return zeroInt
		case t.Info()&types.IsBoolean != 0:
			return zeroBool
		case t.Info()&types.IsString != 0:
			return zeroStr
		case t.Info()&types.IsFloat != 0:
			return zeroFloat
		case t.Info()&types.IsComplex != 0:
			return Complex(0)
		case t.Kind() == types.UntypedNil, t.Kind() == types.Invalid:
			return nil
		}
		panic(fmt.Sprintf("zero: basic %v", t))
	case *types.Pointer:
		return (*Value)(nil)
	case *types.Struct:
		s := make(Struct, t.NumFields())
		for i := range s {
			s[i] = zero(t.Field(i).Type())
		}
		return s
	case *types.Array:
		a := make(Array, t.Len())
		if t.Len() > 0 {
			z := zero(t.Elem())
			switch z.(type) {
			case Struct, Array:
				for i := range a {
					a[i] = zero(t.Elem())
				}
			default:
				for i := range a {
					a[i] = z
				}
			}
		}
		return a
	case *types.Slice:
		return Slice{}
	case *types.Map:
		return (*MapV)(nil)
	case *types.Chan:
		return (*ChanV)(nil)
	case *types.Signature:
		return (*Closure)(nil)
	case *types.Interface:
		return Iface{}
	case *types.Tuple:
		if t.Len() == 1 {
			return zero(t.At(0).Type())
		}
		r := make(Tuple, t.Len())
		for i := range r {
			r[i] = zero(t.At(i).Type())
		}
		return r
	}
	panic(fmt.Sprintf("zero: unhandled type %T %v", t, t))
}

// copyVal makes value-semantics copies of aggregates.
func copyVal(v Value) Value {
	switch v := v.(type) {
	case Struct:
		r := make(Struct, len(v))
		for i, x := range v {
			r[i] = copyVal(x)
		}
		return r
	case Array:
		r := make(Array, len(v))
		for i, x := range v {
			r[i] = copyVal(x)
		}
		return r
	}
	return v
}

func isNilValue(v Value) bool {
	switch v := v.(type) {
	case nil:
		return true
	case *Value:
		return v == nil
	case Slice:
		return v.A == nil
	case *MapV:
		return v == nil
	case *ChanV:
		return v == nil
	case *Closure:
		return v == nil
	case *ssa.Function:
		return v == nil
	case Iface:
		return v.T == nil
	case UnsafePtr:
		return v.P == nil
	}
	return false
}

// concKey renders a fully concrete hashable value as a map-index string; ok=false
// when the value has symbolic leaves.
func concKey(v Value) (string, bool) {
	var sb strings.Builder
	if !writeKey(&sb, v) {
		return "", false
	}
	return sb.String(), true
}

func writeKey(sb *strings.Builder, v Value) bool {
	switch v := v.(type) {
	case Int:
		if v.T != nil {
			return false
		}
		fmt.Fprintf(sb, "i%d;", v.C)
	case Bool:
		if v.T != nil {
			return false
		}
		fmt.Fprintf(sb, "b%v;", v.C)
	case Float:
		fmt.Fprintf(sb, "f%v;", float64(v))
	case Str:
		if v.B != nil {
			return false
		}
		fmt.Fprintf(sb, "s%d:%s;", len(v.S), v.S)
	case Struct:
		sb.WriteString("{")
		for _, x := range v {
			if !writeKey(sb, x) {
				return false
			}
		}
		sb.WriteString("}")
	case Array:
		sb.WriteString("[")
		for _, x := range v {
			if !writeKey(sb, x) {
				return false
			}
		}
		sb.WriteString("]")
	case *Value:
		fmt.Fprintf(sb, "p%p;", v)
	case Iface:
		if v.T == nil {
			sb.WriteString("nil;")
		} else {
			fmt.Fprintf(sb, "I%s:", v.T.String())
			if !writeKey(sb, v.V) {
				return false
			}
		}
	case *ChanV:
		fmt.Fprintf(sb, "c%p;", v)
	case UnsafePtr:
		fmt.Fprintf(sb, "u%p;", v.P)
	case nil:
		sb.WriteString("nil;")
	default:
		panic(fmt.Sprintf("writeKey: unhashable %T", v))
	}
	return true
}

func newMap(kt types.Type) *MapV {
	return &MapV{index: map[string]int{}, ktype: kt}
}

func (m *MapV) Len() int {
	if m == nil {
		return 0
	}
	n := 0
	for _, k := range m.keys {
		if k != tombstone {
			n++
		}
	}
	return n
}

type tombstoneT struct{}

var tombstone Value = tombstoneT{}

// describe renders a value for notes / evidence samples.
func describe(v Value) string {
	switch v := v.(type) {
	case Int:
		if v.T != nil {
			return v.T.String()
		}
		return fmt.Sprint(v.C)
	case Bool:
		if v.T != nil {
			return v.T.String()
		}
		return fmt.Sprint(v.C)
	case Str:
		if v.B == nil {
			return fmt.Sprintf("%q", v.S)
		}
		var parts []string
		for _, b := range v.B {
			parts = append(parts, describe(b))
		}
		return "str[" + strings.Join(parts, " ") + "]"
	case Iface:
		if v.T == nil {
			return "nil"
		}
		return fmt.Sprintf("%s(%s)", v.T, describe(v.V))
	case Slice:
		var parts []string
		for i, x := range v.A {
			if i > 16 {
				parts = append(parts, "…")
				break
			}
			parts = append(parts, describe(x))
		}
		return "[" + strings.Join(parts, " ") + "]"
	case Struct:
		var parts []string
		for _, x := range v {
			parts = append(parts, describe(x))
		}
		return "{" + strings.Join(parts, " ") + "}"
	}
	return fmt.Sprintf("%T", v)
}
