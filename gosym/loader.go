package main

// Loading: go/packages over /repo's current working tree with an overlay that
// injects the nd package and the harness files, then go/ssa with instantiated
// generics. Nothing is cached between runs: the encoding is regenerated from the
// sources every time.

import (
	"encoding/json"
	"fmt"
	"go/types"
	"os"
	"path/filepath"
	"sort"
	"strings"
	"time"

	"golang.org/x/tools/go/packages"
	"golang.org/x/tools/go/ssa"
	"golang.org/x/tools/go/ssa/ssautil"
)

const repoModule = "github.com/emersion/go-imap/v2"
const ndPath = repoModule + "/internal/zzverif/nd"

type TierSpec struct {
	Params       map[string]int     `json:"params"`
	Grid         map[string][]int   `json:"grid"`
	StepLimit    int64              `json:"step_limit"`
	MaxPaths     int                `json:"max_paths"`
	MaxDecisions int                `json:"max_decisions"`
	TimeoutMs    int                `json:"query_timeout_ms"`
	Skip         bool               `json:"skip"`
	Extra        map[string]float64 `json:"extra"`
}

type EntrySpec struct {
	Func      string    `json:"func"`
	Title     string    `json:"title"`
	Quick     *TierSpec `json:"quick"`
	Thorough  *TierSpec `json:"thorough"`
	Reach     []string  `json:"reach"`
	IntSolver bool      `json:"int_solver"`
	Monitor   string    `json:"monitor"`
	Vectors   [][]uint64 `json:"vectors"`
	NoRandom  bool      `json:"no_random_validation"`
	NoCross   bool      `json:"no_cross"` // do not re-ask unsat final obligations of the second solver (whole-connection entries whose formulas the old z3 cannot digest)
	fn        *ssa.Function
	params    map[string]int
}

type OverlaySpec struct {
	Src string `json:"src"` // relative to /verif
	Dst string `json:"dst"` // relative to /repo
}

type CheckSpec struct {
	Property    string        `json:"property"`
	Package     string        `json:"package"` // repo-relative dir of the harness package
	Overlays    []OverlaySpec `json:"overlays"`
	Entries     []*EntrySpec  `json:"entries"`
	Assumptions []string      `json:"assumptions"`
	Stubs       []string      `json:"stubs"`
	Outside     []string      `json:"outside_claim"`
	Bounds      string        `json:"bounds"`
	// Parts lets one property be checked by harnesses living in several packages:
	// each part has its own package, overlays and entries.
	Parts []*CheckSpec `json:"parts"`
}

type Program struct {
	ssa                *ssa.Program
	pkgs               []*packages.Package
	harnessPkg         *ssa.Package
	ndPkg              *ssa.Package
	runtimeErrorString types.Type
	errorsErrorString  types.Type // *errors.errorString
	fmtWrapError       types.Type // *fmt.wrapError
	initOrder          []*ssa.Package
	overlay            map[string][]byte
	overlayFiles       map[string]string // dst abs -> src abs
	loadTime           time.Duration
	buildTime          time.Duration
	spec               *CheckSpec
	verifDir           string
	repoDir            string
	params             map[string]int
}

func readSpec(path string) (*CheckSpec, error) {
	b, err := os.ReadFile(path)
	if err != nil {
		return nil, err
	}
	var s CheckSpec
	if err := json.Unmarshal(b, &s); err != nil {
		return nil, fmt.Errorf("%s: %v", path, err)
	}
	return &s, nil
}

func LoadProgram(spec *CheckSpec, verifDir, repoDir string) (*Program, error) {
	p := &Program{spec: spec, verifDir: verifDir, repoDir: repoDir, overlay: map[string][]byte{}, overlayFiles: map[string]string{}}
	add := func(src, dst string) error {
		b, err := os.ReadFile(filepath.Join(verifDir, src))
		if err != nil {
			return err
		}
		abs := filepath.Join(repoDir, dst)
		p.overlay[abs] = b
		p.overlayFiles[abs] = filepath.Join(verifDir, src)
		return nil
	}
	if err := add("harness/nd/nd.go", "internal/zzverif/nd/nd.go"); err != nil {
		return nil, err
	}
	for _, o := range spec.Overlays {
		if err := add(o.Src, o.Dst); err != nil {
			return nil, err
		}
	}
	t0 := time.Now()
	cfg := &packages.Config{
		Mode:    packages.LoadAllSyntax,
		Dir:     repoDir,
		Overlay: p.overlay,
		Env:     append(os.Environ(), "GOFLAGS=-mod=mod", "GOPROXY=off", "GOSUMDB=off", "GOTOOLCHAIN=local"),
	}
	initial, err := packages.Load(cfg, "./"+spec.Package, "./internal/zzverif/nd")
	if err != nil {
		return nil, err
	}
	nerr := 0
	packages.Visit(initial, nil, func(pk *packages.Package) {
		for _, e := range pk.Errors {
			if nerr < 20 {
				fmt.Fprintf(os.Stderr, "load error: %v\n", e)
			}
			nerr++
		}
	})
	if nerr > 0 {
		return nil, fmt.Errorf("%d package load errors", nerr)
	}
	p.pkgs = initial
	p.loadTime = time.Since(t0)
	t1 := time.Now()
	prog, _ := ssautil.AllPackages(initial, ssa.InstantiateGenerics|ssa.SanityCheckFunctions&0)
	prog.Build()
	p.ssa = prog
	p.buildTime = time.Since(t1)

	for _, pk := range prog.AllPackages() {
		switch pk.Pkg.Path() {
		case repoModule + "/" + spec.Package, repoModule:
			if pk.Pkg.Path() == repoModule+"/"+spec.Package || (spec.Package == "." && pk.Pkg.Path() == repoModule) {
				p.harnessPkg = pk
			}
		case ndPath:
			p.ndPkg = pk
		}
	}
	if spec.Package == "." {
		p.harnessPkg = prog.ImportedPackage(repoModule)
	}
	if p.harnessPkg == nil {
		return nil, fmt.Errorf("harness package %s not found", spec.Package)
	}
	if rt := prog.ImportedPackage("runtime"); rt != nil {
		p.runtimeErrorString = rt.Type("errorString").Type()
	}
	if ep := prog.ImportedPackage("errors"); ep != nil {
		p.errorsErrorString = types.NewPointer(ep.Type("errorString").Type())
	}
	if fp := prog.ImportedPackage("fmt"); fp != nil {
		p.fmtWrapError = types.NewPointer(fp.Type("wrapError").Type())
	}
	for _, e := range spec.Entries {
		f := p.harnessPkg.Func(e.Func)
		if f == nil {
			return nil, fmt.Errorf("entry %s not found in %s", e.Func, p.harnessPkg.Pkg.Path())
		}
		e.fn = f
	}
	p.computeInitOrder()
	return p, nil
}

func (p *Program) lookupFunc(pkg, name string) *ssa.Function {
	pk := p.ssa.ImportedPackage(pkg)
	if pk == nil {
		unsupported("package %s not loaded", pkg)
	}
	f := pk.Func(name)
	if f == nil {
		unsupported("function %s.%s not found", pkg, name)
	}
	return f
}

func (p *Program) lookupType(pkg, name string) types.Type {
	pk := p.ssa.ImportedPackage(pkg)
	if pk == nil {
		unsupported("package %s not loaded", pkg)
	}
	t := pk.Type(name)
	if t == nil {
		unsupported("type %s.%s not found", pkg, name)
	}
	return t.Type()
}

var initWhitelist = map[string]bool{
	"unicode": true, "unicode/utf8": true, "unicode/utf16": true, "strconv": true, "strings": true,
	"bytes": true, "bufio": true, "io": true, "sort": true, "slices": true, "maps": true,
	"encoding/base64": true, "encoding/binary": false, "mime": true, "net/mail": true, "net/textproto": true,
	"math": true, "math/bits": true, "io/ioutil": false, "errors": false, "time": true, "mime/quotedprintable": true,
	"mime/multipart": false, "encoding/hex": true, "html": false, "container/list": true, "regexp": false,
	"regexp/syntax": false, "internal/stringslite": true, "internal/bytealg": false, "cmp": true,
	"internal/itoa": true, "unique": false, "iter": true, "path": true, "hash/crc32": false,
	"internal/godebug": false,
}

func initAllowed(path string) bool {
	if strings.HasPrefix(path, "github.com/emersion/") || strings.HasPrefix(path, "golang.org/x/text") {
		return true
	}
	return initWhitelist[path]
}

// computeInitOrder lists whitelisted packages in dependency order.
func (p *Program) computeInitOrder() {
	seen := map[*types.Package]bool{}
	var order []*ssa.Package
	var visit func(tp *types.Package)
	visit = func(tp *types.Package) {
		if seen[tp] {
			return
		}
		seen[tp] = true
		imps := append([]*types.Package(nil), tp.Imports()...)
		sort.Slice(imps, func(i, j int) bool { return imps[i].Path() < imps[j].Path() })
		for _, ip := range imps {
			visit(ip)
		}
		if sp := p.ssa.Package(tp); sp != nil && initAllowed(tp.Path()) {
			order = append(order, sp)
		}
	}
	visit(p.harnessPkg.Pkg)
	if p.ndPkg != nil {
		visit(p.ndPkg.Pkg)
	}
	p.initOrder = order
}

// initPackages runs the package initialisers concretely (journal off: this is the
// state every path starts from).
func (m *Machine) initPackages() (errMsg string) {
	defer func() {
		if r := recover(); r != nil {
			switch r := r.(type) {
			case engineError:
				errMsg = r.msg
			case hostCrash:
				errMsg = r.msg
			case goPanic:
				errMsg = "panic: " + m.panicString(r.v)
			default:
				errMsg = fmt.Sprint(r)
			}
		}
	}()
	m.concrete = true
	m.cur = &PathResult{reached: map[string][]uint64{}}
	saved := m.stepLimit
	m.stepLimit = 1 << 40
	for _, sp := range m.prog.initOrder {
		m.inited[sp] = true
	}
	for _, sp := range m.prog.initOrder {
		if f := sp.Func("init"); f != nil {
			m.call(nil, 0, f, nil)
		}
	}
	m.stepLimit = saved
	m.initSteps = m.steps
	m.steps = 0
	m.concrete = false
	m.cur = nil
	return ""
}

func (m *Machine) ensureInit(p *ssa.Package) {}
