package main

// SSA interpreter with possibly-symbolic scalars. Structure follows
// golang.org/x/tools/go/ssa/interp; branches on symbolic conditions are decided by
// the path explorer (explore.go).

import (
	"fmt"
	"go/token"
	"go/types"
	"os"
	"runtime/debug"
	"strings"

	"golang.org/x/tools/go/ssa"
)

// goPanic is a panic of the interpreted program.
type goPanic struct {
	v Value // an interface value (Iface)
}

// pathAbort unwinds the host stack at the end of a path (all goroutines).
type pathAbort struct{}

// engineError reports a construct the engine cannot execute; the path (and the run)
// is marked unsupported — never a pass.
type engineError struct {
	msg string
}

func unsupported(format string, args ...interface{}) {
	panic(engineError{fmt.Sprintf(format, args...)})
}

type deferred struct {
	fn   Value
	args []Value
	pos  token.Pos
}

type funcInfo struct {
	idx       map[ssa.Value]int32
	nslots    int
	intercept interceptFn
	name      string
	looked    bool
}

type frame struct {
	m         *Machine
	g         *G
	fn        *ssa.Function
	info      *funcInfo
	caller    *frame
	env       []Value
	block     *ssa.BasicBlock
	prev      *ssa.BasicBlock
	defers    []deferred
	panicking bool
	panicV    interface{}
	result    Value
	depth     int
	callPos   token.Pos
}

func (m *Machine) info(fn *ssa.Function) *funcInfo {
	if fi, ok := m.finfo[fn]; ok {
		return fi
	}
	fi := &funcInfo{idx: map[ssa.Value]int32{}, name: fn.String()}
	n := int32(0)
	for _, p := range fn.Params {
		fi.idx[p] = n
		n++
	}
	for _, p := range fn.FreeVars {
		fi.idx[p] = n
		n++
	}
	for _, b := range fn.Blocks {
		for _, ins := range b.Instrs {
			if v, ok := ins.(ssa.Value); ok {
				fi.idx[v] = n
				n++
			}
		}
	}
	fi.nslots = int(n)
	fi.intercept = intercepts[fi.name]
	m.finfo[fn] = fi
	return fi
}

func (fr *frame) get(v ssa.Value) Value {
	switch v := v.(type) {
	case *ssa.Const:
		return fr.m.constValue(v)
	case *ssa.Global:
		return fr.m.globalAddr(v)
	case *ssa.Function:
		return v
	case *ssa.Builtin:
		return v
	case nil:
		return nil
	}
	i, ok := fr.info.idx[v]
	if !ok {
		panic(fmt.Sprintf("get: no slot for %T %s in %s", v, v.Name(), fr.fn))
	}
	return fr.env[i]
}

func (fr *frame) set(v ssa.Value, x Value) {
	fr.env[fr.info.idx[v]] = x
}

func (m *Machine) constValue(c *ssa.Const) Value {
	if v, ok := m.consts[c]; ok {
		return v
	}
	v := m.evalConst(c)
	m.consts[c] = v
	return v
}

func (m *Machine) evalConst(c *ssa.Const) Value {
	if c.Value == nil {
		return zero(c.Type())
	}
	t := c.Type().Underlying()
	if b, ok := t.(*types.Basic); ok {
		switch {
		case b.Info()&types.IsBoolean != 0:
			return Bool{C: constBool(c)}
		case b.Info()&types.IsInteger != 0:
			w, _ := intWidth(b)
			return Int{C: constUint64(c) & mask(w)}
		case b.Info()&types.IsString != 0:
			return Str{S: constString(c)}
		case b.Info()&types.IsFloat != 0:
			return Float(c.Float64())
		case b.Info()&types.IsComplex != 0:
			return Complex(c.Complex128())
		}
	}
	if _, ok := t.(*types.Interface); ok {
		// constant converted to interface? not produced by ssa
	}
	panic(fmt.Sprintf("evalConst: %v : %v", c, c.Type()))
}

func (m *Machine) globalAddr(g *ssa.Global) *Value {
	if p, ok := m.globals[g]; ok {
		return p
	}
	p := new(Value)
	elem := g.Type().(*types.Pointer).Elem()
	*p = zero(elem)
	if g.Pkg != nil && !initAllowed(g.Pkg.Pkg.Path()) && types.Identical(elem, types.Universe.Lookup("error").Type()) && m.prog.errorsErrorString != nil {
		// a sentinel error of a package whose initialisers are not run (net.ErrClosed,
		// os.ErrDeadlineExceeded, ...): a distinct opaque error object, so that
		// comparisons and errors.Is behave
		obj := new(Value)
		*obj = Struct{Str{S: g.Pkg.Pkg.Path() + "." + g.Name()}}
		*p = Iface{T: m.prog.errorsErrorString, V: obj}
	}
	m.globals[g] = p
	if m.journalOn {
		// created during a path: forget it again afterwards so that every path sees
		// the same initial state
		m.undo = append(m.undo, func() { delete(m.globals, g) })
	}
	return p
}

// store writes v to *addr with value semantics for aggregates, journaling the old
// contents so that the state can be rolled back at the end of the path.
func (m *Machine) store(addr *Value, v Value) {
	if addr == nil {
		m.panicRuntime("invalid memory address or nil pointer dereference")
	}
	switch rhs := v.(type) {
	case Struct:
		if lhs, ok := (*addr).(Struct); ok && len(lhs) == len(rhs) {
			for i := range lhs {
				m.store(&lhs[i], rhs[i])
			}
			return
		}
		v = copyVal(v)
	case Array:
		if lhs, ok := (*addr).(Array); ok && len(lhs) == len(rhs) {
			for i := range lhs {
				m.store(&lhs[i], rhs[i])
			}
			return
		}
		v = copyVal(v)
	}
	if m.journalOn {
		m.journal = append(m.journal, journalEntry{addr, *addr})
	}
	*addr = v
}

func (m *Machine) load(addr *Value) Value {
	if addr == nil {
		m.panicRuntime("invalid memory address or nil pointer dereference")
	}
	return copyVal(*addr)
}

func (m *Machine) panicRuntime(msg string) {
	panic(goPanic{m.runtimeError(msg)})
}

func (m *Machine) runtimeError(msg string) Value {
	return Iface{T: m.prog.runtimeErrorString, V: Str{S: msg}}
}

// ---------------------------------------------------------------------------

func (m *Machine) call(caller *frame, pos token.Pos, fn Value, args []Value) Value {
	switch fn := fn.(type) {
	case *ssa.Function:
		if fn == nil {
			m.panicRuntime("invalid memory address or nil pointer dereference")
		}
		return m.callSSA(caller, pos, fn, args, nil)
	case *Closure:
		if fn == nil {
			m.panicRuntime("invalid memory address or nil pointer dereference")
		}
		return m.callSSA(caller, pos, fn.Fn, args, fn.Env)
	case *ssa.Builtin:
		return m.callBuiltin(caller, pos, fn, args)
	case HostFunc:
		return fn(m, caller, args)
	}
	panic(fmt.Sprintf("cannot call %T", fn))
}

// HostFunc is an engine-side function value that can be stored where the program
// expects a func.
type HostFunc func(m *Machine, caller *frame, args []Value) Value

const maxDepth = 20000

func (m *Machine) callSSA(caller *frame, pos token.Pos, fn *ssa.Function, args []Value, env []Value) Value {
	info := m.info(fn)
	if info.intercept != nil && fn.Parent() == nil {
		if r, handled := info.intercept(m, caller, fn, args); handled {
			return r
		}
	}
	if fn.Blocks == nil {
		unsupported("no code for function %s", info.name)
	}
	if fn.TypeParams().Len() > 0 && len(fn.TypeArgs()) == 0 {
		unsupported("uninstantiated generic %s", info.name)
	}
	if fn.Pkg != nil && fn.Name() == "init" && fn.Signature.Recv() == nil && fn.Parent() == nil && !initAllowed(fn.Pkg.Pkg.Path()) {
		return nil // initialiser of a package outside the whitelist: globals stay zero
	}
	fr := &frame{m: m, fn: fn, info: info, caller: caller, callPos: pos}
	if caller != nil {
		fr.g = caller.g
		fr.depth = caller.depth + 1
	} else {
		fr.g = m.curG
	}
	if fr.depth > maxDepth {
		m.recursionLimit(fr)
	}

	if m.trackFuncs {
		m.funcsSeen[fn] = struct{}{}
	}
	if m.monitor != nil {
		m.monitor.enter(fr)
		defer m.monitor.leave(fr)
	}
	fr.env = make([]Value, info.nslots)
	for i, p := range fn.Params {
		fr.env[info.idx[p]] = args[i]
	}
	for i, fv := range fn.FreeVars {
		fr.env[info.idx[fv]] = env[i]
	}
	for _, l := range fn.Locals {
		p := new(Value)
		*p = zero(l.Type().(*types.Pointer).Elem())
		fr.env[info.idx[l]] = p
	}
	fr.block = fn.Blocks[0]
	for fr.block != nil {
		m.runFrame(fr)
	}
	return fr.result
}

func (m *Machine) recursionLimit(fr *frame) {
	m.pathOutcome("depth-limit", fmt.Sprintf("call depth > %d in %s", maxDepth, fr.fn))
	panic(pathAbort{})
}

func (m *Machine) runFrame(fr *frame) {
	defer func() {
		if fr.block == nil {
			return // normal return
		}
		r := recover()
		switch r.(type) {
		case goPanic:
		case pathAbort:
			panic(r)
		case engineError:
			// say where (once, at the innermost frame)
			e := r.(engineError)
			if !strings.Contains(e.msg, " [in ") {
				st := strings.Split(strings.TrimSpace(fr.stack()), "\n")
				if len(st) > 5 {
					st = st[:5]
				}
				e.msg += " [in " + strings.Join(st, " <- ") + "]"
			}
			panic(e)
		default:
			// host panic: engine bug. Annotate once and propagate.
			if _, ok := r.(hostCrash); ok {
				panic(r)
			}
			panic(hostCrash{fmt.Sprintf("%v\nin %s (block %d)\ninterpreted stack:\n%s\n%s", r, fr.fn, fr.block.Index, fr.stack(), debug.Stack())})
		}
		fr.panicking = true
		fr.panicV = r
		fr.runDefers()
		// recovered
		fr.block = fr.fn.Recover
		if fr.block == nil {
			// no named results: return zero value
			fr.result = zero(fr.fn.Signature.Results())
			if fr.fn.Signature.Results().Len() == 0 {
				fr.result = nil
			}
		}
	}()
	for {
		instrs := fr.block.Instrs
		// phis (parallel assignment)
		i := 0
		if _, ok := instrs[0].(*ssa.Phi); ok {
			predIndex := -1
			for j, p := range fr.block.Preds {
				if p == fr.prev {
					predIndex = j
					break
				}
			}
			var tmp [8]Value
			temps := tmp[:0]
			for ; i < len(instrs); i++ {
				phi, ok := instrs[i].(*ssa.Phi)
				if !ok {
					break
				}
				temps = append(temps, fr.get(phi.Edges[predIndex]))
			}
			for j := 0; j < i; j++ {
				fr.set(instrs[j].(*ssa.Phi), temps[j])
			}
		}
		m.steps += int64(len(instrs))
		if m.steps > m.stepLimit {
			m.pathOutcome("step-limit", fmt.Sprintf("step budget %d exhausted in %s", m.stepLimit, fr.fn))
			panic(pathAbort{})
		}
		jumped := false
		for ; i < len(instrs); i++ {
			switch m.visitInstr(fr, instrs[i]) {
			case kReturn:
				return
			case kJump:
				jumped = true
			}
			if jumped {
				break
			}
		}
		if !jumped {
			panic("block fell through")
		}
	}
}

type hostCrash struct{ msg string }

type continuation int

const (
	kNext continuation = iota
	kReturn
	kJump
)

func (fr *frame) runDefers() {
	for len(fr.defers) > 0 {
		d := fr.defers[len(fr.defers)-1]
		fr.defers = fr.defers[:len(fr.defers)-1]
		fr.runDefer(d)
	}
	if fr.panicking {
		panic(fr.panicV)
	}
}

func (fr *frame) runDefer(d deferred) {
	ok := false
	defer func() {
		if !ok {
			r := recover()
			switch r.(type) {
			case goPanic:
				// deferred call panicked: replaces the current panic
				fr.panicking = true
				fr.panicV = r
			default:
				panic(r)
			}
		}
	}()
	fr.m.call(fr, d.pos, d.fn, d.args)
	ok = true
}

func (m *Machine) doRecover(caller *frame) Value {
	// recover() is effective only when called directly by a deferred function while
	// the deferring function is panicking.
	if caller != nil && !caller.panicking && caller.caller != nil && caller.caller.panicking {
		p := caller.caller.panicV
		caller.caller.panicking = false
		caller.caller.panicV = nil
		if gp, ok := p.(goPanic); ok {
			return gp.v
		}
		panic(p)
	}
	return Iface{}
}

func (m *Machine) prepareCall(fr *frame, c *ssa.CallCommon) (Value, []Value) {
	v := fr.get(c.Value)
	var fn Value
	var args []Value
	if c.Method == nil {
		fn = v
		args = make([]Value, 0, len(c.Args))
	} else {
		recv := v.(Iface)
		if recv.T == nil {
			m.panicRuntime("invalid memory address or nil pointer dereference")
		}
		if hf := m.hostMethod(recv, c.Method); hf != nil {
			fn = hf
		} else {
			f := m.prog.ssa.LookupMethod(recv.T, c.Method.Pkg(), c.Method.Name())
			if f == nil {
				panic(fmt.Sprintf("method set of %v does not contain %s", recv.T, c.Method))
			}
			fn = f
		}
		args = make([]Value, 0, len(c.Args)+1)
		args = append(args, recv.V)
	}
	for _, a := range c.Args {
		args = append(args, fr.get(a))
	}
	return fn, args
}

func (m *Machine) visitInstr(fr *frame, instr ssa.Instruction) continuation {
	switch instr := instr.(type) {
	case *ssa.DebugRef:

	case *ssa.UnOp:
		fr.set(instr, m.unop(fr, instr, fr.get(instr.X)))

	case *ssa.BinOp:
		fr.set(instr, m.binop(instr.Op, instr.X.Type(), fr.get(instr.X), fr.get(instr.Y)))

	case *ssa.Call:
		fn, args := m.prepareCall(fr, &instr.Call)
		fr.set(instr, m.call(fr, instr.Pos(), fn, args))

	case *ssa.ChangeInterface:
		fr.set(instr, fr.get(instr.X))

	case *ssa.ChangeType:
		fr.set(instr, fr.get(instr.X))

	case *ssa.Convert:
		fr.set(instr, m.conv(fr, instr.Type(), instr.X.Type(), fr.get(instr.X)))

	case *ssa.MultiConvert:
		fr.set(instr, m.conv(fr, instr.Type(), instr.X.Type(), fr.get(instr.X)))

	case *ssa.SliceToArrayPointer:
		x := fr.get(instr.X).(Slice)
		n := instr.Type().Underlying().(*types.Pointer).Elem().Underlying().(*types.Array).Len()
		if int64(len(x.A)) < n {
			m.panicRuntime("cannot convert slice to array pointer: length too short")
		}
		if x.A == nil {
			fr.set(instr, (*Value)(nil))
		} else {
			p := new(Value)
			*p = Array(x.A[:n:n])
			fr.set(instr, p)
		}

	case *ssa.MakeInterface:
		fr.set(instr, Iface{T: instr.X.Type(), V: fr.get(instr.X)})

	case *ssa.Extract:
		fr.set(instr, fr.get(instr.Tuple).(Tuple)[instr.Index])

	case *ssa.Slice:
		fr.set(instr, m.sliceOp(fr, instr))

	case *ssa.Return:
		switch len(instr.Results) {
		case 0:
			fr.result = nil
		case 1:
			fr.result = fr.get(instr.Results[0])
		default:
			res := make(Tuple, len(instr.Results))
			for i, r := range instr.Results {
				res[i] = fr.get(r)
			}
			fr.result = res
		}
		fr.block = nil
		return kReturn

	case *ssa.RunDefers:
		fr.runDefers()

	case *ssa.Panic:
		panic(goPanic{fr.get(instr.X)})

	case *ssa.Send:
		m.chanSend(fr, fr.get(instr.Chan).(*ChanV), fr.get(instr.X))

	case *ssa.Store:
		m.store(fr.get(instr.Addr).(*Value), fr.get(instr.Val))

	case *ssa.If:
		succ := 1
		if m.branch(fr.get(instr.Cond).(Bool)) {
			succ = 0
		}
		fr.prev, fr.block = fr.block, fr.block.Succs[succ]
		return kJump

	case *ssa.Jump:
		fr.prev, fr.block = fr.block, fr.block.Succs[0]
		return kJump

	case *ssa.Defer:
		fn, args := m.prepareCall(fr, &instr.Call)
		if instr.DeferStack != nil {
			unsupported("defer with explicit DeferStack (range-over-func)")
		}
		fr.defers = append(fr.defers, deferred{fn, args, instr.Pos()})

	case *ssa.Go:
		fn, args := m.prepareCall(fr, &instr.Call)
		m.spawn(fr, instr.Pos(), fn, args)

	case *ssa.MakeChan:
		n := m.concInt(fr.get(instr.Size).(Int), 64, "chan size")
		m.chanSeq++
		fr.set(instr, &ChanV{cap: int(n), elem: instr.Type().Underlying().(*types.Chan).Elem(), id: m.chanSeq})

	case *ssa.Alloc:
		p := new(Value)
		*p = zero(instr.Type().(*types.Pointer).Elem())
		if instr.Heap {
			fr.set(instr, p)
		} else {
			// local: re-zero in place (loop re-entry)
			old := fr.get(instr).(*Value)
			*old = *p
		}

	case *ssa.MakeSlice:
		ln := m.concInt(fr.get(instr.Len).(Int), 64, "make len")
		cp := m.concInt(fr.get(instr.Cap).(Int), 64, "make cap")
		if int64(ln) < 0 || int64(cp) < int64(ln) || cp > 1<<28 {
			m.panicRuntime("makeslice: len out of range")
		}
		a := make([]Value, cp)
		z := zero(instr.Type().Underlying().(*types.Slice).Elem())
		switch z.(type) {
		case Struct, Array:
			et := instr.Type().Underlying().(*types.Slice).Elem()
			for i := range a {
				a[i] = zero(et)
			}
		default:
			for i := range a {
				a[i] = z
			}
		}
		fr.set(instr, Slice{A: a[:ln]})

	case *ssa.MakeMap:
		fr.set(instr, newMap(instr.Type().Underlying().(*types.Map).Key()))

	case *ssa.Range:
		fr.set(instr, m.rangeIter(fr.get(instr.X), instr.X.Type()))

	case *ssa.Next:
		fr.set(instr, m.rangeNext(fr, fr.get(instr.Iter).(*RangeIter), instr))

	case *ssa.FieldAddr:
		p := fr.get(instr.X).(*Value)
		if p == nil {
			m.panicRuntime("invalid memory address or nil pointer dereference")
		}
		fr.set(instr, &(*p).(Struct)[instr.Field])

	case *ssa.Field:
		fr.set(instr, copyVal(fr.get(instr.X).(Struct)[instr.Field]))

	case *ssa.IndexAddr:
		fr.set(instr, m.indexAddr(fr, instr))

	case *ssa.Index:
		fr.set(instr, m.index(fr, instr))

	case *ssa.Lookup:
		fr.set(instr, m.lookup(fr, instr))

	case *ssa.MapUpdate:
		mp := fr.get(instr.Map).(*MapV)
		if mp == nil {
			panic(goPanic{m.plainError("assignment to entry in nil map")})
		}
		m.mapUpdate(mp, fr.get(instr.Key), copyVal(fr.get(instr.Value)))

	case *ssa.TypeAssert:
		fr.set(instr, m.typeAssert(instr, fr.get(instr.X).(Iface)))

	case *ssa.MakeClosure:
		bindings := make([]Value, len(instr.Bindings))
		for i, b := range instr.Bindings {
			bindings[i] = fr.get(b)
		}
		fr.set(instr, &Closure{instr.Fn.(*ssa.Function), bindings})

	case *ssa.Select:
		fr.set(instr, m.selectOp(fr, instr))

	default:
		panic(fmt.Sprintf("unexpected instruction: %T", instr))
	}
	return kNext
}

func (m *Machine) plainError(msg string) Value {
	return Iface{T: m.prog.runtimeErrorString, V: Str{S: msg}}
}

func (m *Machine) typeAssert(instr *ssa.TypeAssert, itf Iface) Value {
	var v Value
	err := ""
	if itf.T == nil {
		err = fmt.Sprintf("interface conversion: interface is nil, not %s", instr.AssertedType)
	} else if idst, ok := instr.AssertedType.Underlying().(*types.Interface); ok {
		v = itf
		if !m.implements(itf.T, idst) {
			err = fmt.Sprintf("interface conversion: %v is not %v: missing method", itf.T, idst)
		}
	} else if types.Identical(itf.T, instr.AssertedType) {
		v = itf.V
	} else {
		err = fmt.Sprintf("interface conversion: interface is %s, not %s", itf.T, instr.AssertedType)
	}
	if err != "" {
		if !instr.CommaOk {
			panic(goPanic{m.runtimeErrorRaw(err)})
		}
		return Tuple{zero(instr.AssertedType), Bool{C: false}}
	}
	if instr.CommaOk {
		return Tuple{v, Bool{C: true}}
	}
	return v
}

func (m *Machine) runtimeErrorRaw(msg string) Value {
	return Iface{T: m.prog.runtimeErrorString, V: Str{S: msg}}
}

func (m *Machine) implements(t types.Type, iface *types.Interface) bool {
	key := implKey{t, iface}
	if r, ok := m.implCache[key]; ok {
		return r
	}
	r := types.Implements(t, iface)
	m.implCache[key] = r
	return r
}

type implKey struct {
	t types.Type
	i *types.Interface
}

// ---------------------------------------------------------------------------
// diagnostics

func (fr *frame) stack() string {
	var sb strings.Builder
	for f := fr; f != nil; f = f.caller {
		pos := f.m.prog.ssa.Fset.Position(f.callPos)
		fmt.Fprintf(&sb, "  %s (called at %s)\n", f.fn, pos)
	}
	return sb.String()
}

func debugf(format string, args ...interface{}) {
	if os.Getenv("GOSYM_DEBUG") != "" {
		fmt.Fprintf(os.Stderr, format, args...)
	}
}
