package main

// One long-lived SMT solver process per worker, driven over stdin/stdout with
// push/pop. Any "(error" line makes the query inconclusive.

import (
	"bufio"
	"fmt"
	"io"
	"os"
	"os/exec"
	"strconv"
	"strings"
	"time"
)

type Result int

const (
	Unsat Result = iota
	Sat
	Unknown
)

func (r Result) String() string { return [...]string{"unsat", "sat", "unknown"}[r] }

type SolverStats struct {
	Queries  int
	Sat      int
	Unsat    int
	Unknown  int
	Errors   int
	Time     time.Duration
	MaxQuery time.Duration
}

type Solver struct {
	kind    string // "z3", "z3-new", "cvc5", "cvc5-int"
	cmd     *exec.Cmd
	in      io.WriteCloser
	out     *bufio.Reader
	ts      *TermStore
	defined map[int32]bool
	nvars   int
	tabDef  map[int]bool
	depth   int
	Stats   SolverStats
	log     *os.File
	buf     strings.Builder
	timeout int // ms
	dead    bool
	noModel bool
	pathErr bool
}

func solverArgv(kind string, timeoutMs int) []string {
	switch kind {
	case "z3":
		return []string{"z3", "-in"}
	case "z3-new":
		return []string{"z3-new", "-in"}
	case "cvc5":
		return []string{"cvc5", "--incremental", "--lang=smt2", "--produce-models", fmt.Sprintf("--tlimit-per=%d", timeoutMs)}
	case "cvc5-int":
		return []string{"cvc5", "--incremental", "--lang=smt2", "--produce-models", "--solve-bv-as-int=sum", fmt.Sprintf("--tlimit-per=%d", timeoutMs)}
	}
	panic("unknown solver " + kind)
}

func NewSolver(kind string, ts *TermStore, timeoutMs int) (*Solver, error) {
	argv := solverArgv(kind, timeoutMs)
	cmd := exec.Command(argv[0], argv[1:]...)
	in, err := cmd.StdinPipe()
	if err != nil {
		return nil, err
	}
	outp, err := cmd.StdoutPipe()
	if err != nil {
		return nil, err
	}
	cmd.Stderr = os.Stderr
	if err := cmd.Start(); err != nil {
		return nil, err
	}
	s := &Solver{kind: kind, cmd: cmd, in: in, out: bufio.NewReaderSize(outp, 1<<16), ts: ts,
		defined: map[int32]bool{}, tabDef: map[int]bool{}, timeout: timeoutMs}
	if p := os.Getenv("GOSYM_SMTLOG"); p != "" {
		s.log, _ = os.OpenFile(fmt.Sprintf("%s.%d", p, cmd.Process.Pid), os.O_CREATE|os.O_WRONLY|os.O_TRUNC, 0o644)
	}
	if strings.HasPrefix(kind, "z3") {
		s.send(fmt.Sprintf("(set-option :timeout %d)", timeoutMs))
	} else {
		s.send("(set-logic ALL)")
	}
	s.send("(set-option :produce-models true)")
	s.flush()
	return s, nil
}

func (s *Solver) Close() {
	if s.dead {
		return
	}
	s.dead = true
	s.in.Close()
	done := make(chan struct{})
	go func() { s.cmd.Wait(); close(done) }()
	select {
	case <-done:
	case <-time.After(2 * time.Second):
		s.cmd.Process.Kill()
		<-done
	}
	if s.log != nil {
		s.log.Close()
	}
}

func (s *Solver) send(line string) {
	s.buf.WriteString(line)
	s.buf.WriteByte('\n')
}

func (s *Solver) flush() {
	if s.buf.Len() == 0 {
		return
	}
	if s.log != nil {
		s.log.WriteString(s.buf.String())
	}
	io.WriteString(s.in, s.buf.String())
	s.buf.Reset()
}

// BeginPath opens the per-path frame; all term definitions live inside it.
func (s *Solver) BeginPath() {
	s.send("(push 1)")
	s.depth = 1
	s.pathErr = false
	s.defined = map[int32]bool{}
	s.nvars = 0
	for k := range s.tabDef {
		delete(s.tabDef, k)
	}
}

// SetTimeout changes the per-query time limit (z3 only; cvc5's limit is a command-line
// option fixed at start-up).
func (s *Solver) SetTimeout(ms int) {
	if ms <= 0 || ms == s.timeout || !strings.HasPrefix(s.kind, "z3") {
		return
	}
	s.timeout = ms
	s.send(fmt.Sprintf("(set-option :timeout %d)", ms))
	s.flush()
}

func (s *Solver) EndPath() {
	s.send("(pop 1)")
	s.depth = 0
	s.flush()
}

func (s *Solver) declareVars() {
	for s.nvars < s.ts.nvars {
		v := s.ts.vars[s.nvars]
		s.send(fmt.Sprintf("(declare-const v%d %s)", v.k, sortOf(v.w)))
		s.nvars++
	}
}

// define makes sure t and all its sub-terms are named in the solver.
func (s *Solver) define(t *Term) {
	if t.op == OpConst || t.op == OpVar || s.defined[t.id] {
		return
	}
	// iterative post-order to survive very deep chains
	type fr struct {
		t *Term
		i int
	}
	stack := []fr{{t, 0}}
	for len(stack) > 0 {
		top := &stack[len(stack)-1]
		x := top.t
		var kids [3]*Term
		kids[0], kids[1], kids[2] = x.a, x.b, x.c
		advanced := false
		for top.i < 3 {
			k := kids[top.i]
			top.i++
			if k != nil && k.op != OpConst && k.op != OpVar && !s.defined[k.id] {
				stack = append(stack, fr{k, 0})
				advanced = true
				break
			}
		}
		if advanced {
			continue
		}
		stack = stack[:len(stack)-1]
		if s.defined[x.id] {
			continue
		}
		if x.op == OpTable && !s.tabDef[int(x.k)] {
			s.send(tableDef(s.ts.tables[x.k]))
			s.tabDef[int(x.k)] = true
		}
		s.send(fmt.Sprintf("(declare-const t%d %s)", x.id, sortOf(x.w)))
		s.send(fmt.Sprintf("(assert (= t%d %s))", x.id, s.ts.body(x)))
		s.defined[x.id] = true
	}
}

func (s *Solver) Assert(t *Term) {
	if t.IsTrue() {
		return
	}
	s.declareVars()
	s.define(t)
	s.send(fmt.Sprintf("(assert %s)", t.ref()))
}

func (s *Solver) readLine() (string, error) {
	line, err := s.out.ReadString('\n')
	return strings.TrimSpace(line), err
}

// Check decides satisfiability of (path condition ∧ extra). extra may be nil.
// On Sat the model of all declared variables is returned.
func (s *Solver) Check(extra *Term) (Result, Model) {
	if s.dead {
		return Unknown, nil
	}
	s.declareVars()
	if extra != nil {
		if extra.IsFalse() {
			return Unsat, nil
		}
		if extra.IsTrue() {
			extra = nil
		}
	}
	start := time.Now()
	if extra != nil {
		s.define(extra)
		s.send(fmt.Sprintf("(check-sat-assuming (%s))", extra.ref()))
	} else {
		s.send("(check-sat)")
	}
	s.flush()
	s.Stats.Queries++
	res := Unknown
	sawErr := false
	for {
		line, err := s.readLine()
		if err != nil {
			s.dead = true
			s.Stats.Errors++
			break
		}
		if line == "" {
			continue
		}
		if line == "sat" {
			res = Sat
			break
		}
		if line == "unsat" {
			res = Unsat
			break
		}
		if line == "unknown" || line == "timeout" {
			res = Unknown
			break
		}
		if strings.HasPrefix(line, "(error") {
			s.Stats.Errors++
			sawErr = true
			s.pathErr = true
			fmt.Fprintf(os.Stderr, "solver %s: %s\n", s.kind, line)
			// keep reading: the check-sat answer still follows, but is not to be trusted
			continue
		}
		fmt.Fprintf(os.Stderr, "solver %s: unexpected output %q\n", s.kind, line)
	}
	if (sawErr || s.pathErr) && res != Unknown {
		// an assertion may have been dropped: inconclusive
		res = Unknown
	}
	var model Model
	if res == Sat && s.noModel {
		model = Model{}
	} else if res == Sat && s.nvars > 0 {
		model = s.getModel()
		if model == nil {
			res = Unknown
		}
	} else if res == Sat {
		model = Model{}
	}
	d := time.Since(start)
	s.Stats.Time += d
	if d > s.Stats.MaxQuery {
		s.Stats.MaxQuery = d
	}
	switch res {
	case Sat:
		s.Stats.Sat++
	case Unsat:
		s.Stats.Unsat++
	default:
		s.Stats.Unknown++
	}
	return res, model
}

func (s *Solver) getModel() Model {
	var sb strings.Builder
	sb.WriteString("(get-value (")
	for i := 0; i < s.nvars; i++ {
		fmt.Fprintf(&sb, "v%d ", i)
	}
	sb.WriteString("))")
	s.send(sb.String())
	s.flush()
	// read a balanced s-expression
	var text strings.Builder
	depth := 0
	started := false
	for {
		line, err := s.out.ReadString('\n')
		if err != nil {
			s.dead = true
			return nil
		}
		if strings.HasPrefix(strings.TrimSpace(line), "(error") {
			s.Stats.Errors++
			fmt.Fprintf(os.Stderr, "solver %s: %s", s.kind, line)
			return nil
		}
		for _, c := range line {
			if c == '(' {
				depth++
				started = true
			} else if c == ')' {
				depth--
			}
		}
		text.WriteString(line)
		if started && depth <= 0 {
			break
		}
	}
	model := make(Model, s.nvars)
	toks := strings.FieldsFunc(text.String(), func(r rune) bool { return r == '(' || r == ')' || r == ' ' || r == '\n' || r == '\t' })
	for i := 0; i+1 < len(toks); i++ {
		name := toks[i]
		if len(name) < 2 || name[0] != 'v' {
			continue
		}
		idx, err := strconv.Atoi(name[1:])
		if err != nil || idx >= len(model) {
			continue
		}
		val := toks[i+1]
		var v uint64
		switch {
		case val == "true":
			v = 1
		case val == "false":
			v = 0
		case strings.HasPrefix(val, "#x"):
			v, _ = strconv.ParseUint(val[2:], 16, 64)
		case strings.HasPrefix(val, "#b"):
			v, _ = strconv.ParseUint(val[2:], 2, 64)
		case val == "_" && i+3 < len(toks) && strings.HasPrefix(toks[i+2], "bv"):
			v, _ = strconv.ParseUint(toks[i+2][2:], 10, 64)
		default:
			continue
		}
		model[idx] = v
		i++
	}
	return model
}
