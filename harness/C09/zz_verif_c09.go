package imapmemserver

// C09 — the in-memory backend obeys IMAP mailbox semantics. Injected by overlay into
// package imapmemserver. Single operations are run from an arbitrary valid mailbox state
// (symbolic UIDs, UIDNEXT, flag bits) and compared with a reference model written out
// below; the partial-range arithmetic of FETCH BODY[...]<o.n> is run with symbolic 64-bit
// offset and size.

import (
	"strings"
	"time"

	"github.com/emersion/go-imap/v2"
	"github.com/emersion/go-imap/v2/imapserver"
	nd "github.com/emersion/go-imap/v2/internal/zzverif/nd"
)

func init() {
	nd.Register("VerifC09Partial", VerifC09Partial)
	nd.Register("VerifC09Addressing", VerifC09Addressing)
	nd.Register("VerifC09Store", VerifC09Store)
	nd.Register("VerifC09Expunge", VerifC09Expunge)
	nd.Register("VerifC09Append", VerifC09Append)
	nd.Register("VerifC09Status", VerifC09Status)
	nd.Register("VerifC09Namespace", VerifC09Namespace)
	nd.Register("VerifC09Search", VerifC09Search)
	nd.Register("VerifC09ViewSearch", VerifC09ViewSearch)
	nd.Register("VerifC09WireSearch", VerifC09WireSearch)
}

var c09msgs = []string{
	"From: a@b\r\nSubject: hi\r\n\r\nHello, world\r\n",
	"Content-Type: multipart/mixed; boundary=X\r\n\r\n--X\r\nContent-Type: text/plain\r\n\r\none\r\n--X\r\nContent-Type: text/plain\r\n\r\ntwo\r\n--X--\r\n",
}

// c09state builds a mailbox with k messages whose UIDs are symbolic and strictly
// increasing, and a symbolic UIDNEXT above them (the representation invariant).
func c09state(k int) (*Mailbox, []uint32, uint32) {
	mb := NewMailbox("m", 7)
	mb.tracker = imapserver.NewMailboxTracker(uint32(k))
	uids := make([]uint32, k)
	var prev uint32
	for i := 0; i < k; i++ {
		u := nd.Uint32()
		nd.Assume(u > prev)
		uids[i] = u
		prev = u
		mb.l = append(mb.l, &message{uid: imap.UID(u), buf: []byte(c09msgs[0]), flags: map[imap.Flag]struct{}{}, t: time.Date(2024, 1, 5, 10, 0, 0, 0, time.UTC)})
	}
	next := nd.Uint32()
	nd.Assume(next > prev)
	nd.Assume(next < 0xffffffff) // UID exhaustion is outside the claim
	mb.uidNext = imap.UID(next)
	return mb, uids, next
}

// ---------------------------------------------------------------------------
// partial ranges

func VerifC09Partial() {
	which := nd.Param("msg")
	m := &message{uid: 1, buf: []byte(c09msgs[which]), flags: map[imap.Flag]struct{}{}}
	item := &imap.FetchItemBodySection{}
	switch nd.Choice(4) {
	case 0:
	case 1:
		item.Specifier = imap.PartSpecifierHeader
	case 2:
		item.Specifier = imap.PartSpecifierText
	default:
		item.Part = []int{1}
	}
	full := m.bodySection(item)
	nd.Assume(len(full) > 0)
	off, size := nd.Int64(), nd.Int64()
	nd.Assume(off >= 0)
	nd.Assume(size > 0) // partial = "<" number64 "." nz-number64 ">"
	it2 := *item
	it2.Partial = &imap.SectionPartial{Offset: off, Size: size}
	got := m.bodySection(&it2)
	// reference: octets [off, off+size) of the section, clipped to its end, computed
	// without overflow
	n := int64(len(full))
	lo := off
	if lo > n {
		lo = n
	}
	hi := n
	if size < n-lo {
		hi = lo + size
	}
	want := full[lo:hi]
	nd.Assert(len(got) == len(want), "partial-range-length-differs-from-reference")
	for i := range want {
		nd.Assert(got[i] == want[i], "partial-range-bytes-differ-from-reference")
	}
	nd.Reach("partial")
}

// ---------------------------------------------------------------------------
// message addressing (sequence sets, UID sets, '*')

func c09inRange(a, b, x, max uint32) bool {
	if a == 0 {
		a = max
	}
	if b == 0 {
		b = max
	}
	lo := nd.IteU32(a <= b, a, b)
	hi := nd.IteU32(a <= b, b, a)
	return nd.And(lo <= x, x <= hi)
}

func VerifC09Addressing() {
	k := nd.Param("k")
	nr := nd.Param("r")
	mb, uids, _ := c09state(k)
	view := mb.NewView()
	uidKind := nd.Bool()
	as := make([]uint32, nr)
	bs := make([]uint32, nr)
	var set imap.NumSet
	var ss imap.SeqSet
	var us imap.UIDSet
	for i := 0; i < nr; i++ {
		as[i], bs[i] = nd.Uint32(), nd.Uint32()
		if uidKind {
			us.AddRange(imap.UID(as[i]), imap.UID(bs[i]))
		} else {
			ss.AddRange(as[i], bs[i])
		}
	}
	if uidKind {
		set = us
	} else {
		set = ss
	}
	visited := make([]bool, k)
	bad := false
	view.forEach(set, func(seqNum uint32, msg *message) {
		if seqNum < 1 || int(seqNum) > k || mb.l[seqNum-1] != msg || visited[seqNum-1] {
			bad = true
			return
		}
		visited[seqNum-1] = true
	})
	nd.Assert(!bad, "addressed-message-visited-twice-or-with-wrong-number")
	// reference: RFC 9051 section 9 (sequence-set): '*' is the largest number in use
	// (message count, or the UID of the last message); n:m and m:n are the same range
	var max uint32
	if uidKind {
		if k > 0 {
			max = uids[k-1]
		}
	} else {
		max = uint32(k)
	}
	for i := 0; i < k; i++ {
		x := uint32(i + 1)
		if uidKind {
			x = uids[i]
		}
		want := false
		for j := 0; j < nr; j++ {
			want = nd.Or(want, c09inRange(as[j], bs[j], x, max))
		}
		nd.Assert(nd.Iff(visited[i], want), "addressed-messages-differ-from-sequence-set-semantics")
	}
	nd.Reach("addressed")
}

// ---------------------------------------------------------------------------
// STORE

var c09universe = [][]string{
	{"\\Seen", "\\SEEN", "\\seen"},
	{"\\Deleted", "\\deleted"},
	{"custom", "CUSTOM", "Custom"},
	{"$Fwd", "$FWD"},
}

func c09pickFlag() (int, imap.Flag) {
	i := nd.Choice(len(c09universe))
	v := nd.Choice(len(c09universe[i]))
	return i, imap.Flag(c09universe[i][v])
}

// c09bits reads back which flags of the universe a message carries (case-insensitively)
// and whether it carries anything else or a duplicate.
func c09bits(msg *message) (bits [4]bool, clean bool) {
	clean = true
	for _, f := range msg.flagList() {
		hit := -1
		for i := range c09universe {
			if strings.EqualFold(string(f), c09universe[i][0]) {
				hit = i
			}
		}
		if hit < 0 || bits[hit] {
			clean = false
			continue
		}
		bits[hit] = true
	}
	return
}

func VerifC09Store() {
	const k, nf3 = 2, 2 // two messages (target + bystander), first two flags of the universe (\\Seen, \\Deleted)
	// (UIDs are concrete here: addressing is VerifC09Addressing's subject)
	mb := NewMailbox("m", 7)
	mb.tracker = imapserver.NewMailboxTracker(uint32(k))
	uids := []uint32{10, 4000000000}
	for _, u := range uids {
		mb.l = append(mb.l, &message{uid: imap.UID(u), buf: []byte(c09msgs[0]), flags: map[imap.Flag]struct{}{}})
	}
	mb.uidNext = 4000000001
	view := mb.NewView()
	var pre [k][4]bool
	for i := 0; i < k; i++ {
		for f := 0; f < nf3; f++ {
			if i == 1 && f == 1 {
				continue
			}
			pre[i][f] = nd.Bool()
			if pre[i][f] {
				mb.l[i].flags[canonicalFlag(imap.Flag(c09universe[f][0]))] = struct{}{}
			}
		}
	}
	op := []imap.StoreFlagsOp{imap.StoreFlagsSet, imap.StoreFlagsAdd, imap.StoreFlagsDel}[nd.Choice(3)]
	nf := nd.Choice(3)
	spell := nd.Choice(3)
	var named [4]bool
	var flags []imap.Flag
	for i := 0; i < nf; i++ {
		idx := nd.Choice(nf3)
		named[idx] = true
		v := c09universe[idx]
		flags = append(flags, imap.Flag(v[spell%len(v)]))
	}
	// target: message 0 or 1, by sequence number or by UID
	target := nd.Choice(k)
	var set imap.NumSet
	if nd.Bool() {
		set = imap.UIDSetNum(imap.UID(uids[target]))
	} else {
		set = imap.SeqSetNum(uint32(target + 1))
	}
	err := view.Store(nil, set, &imap.StoreFlags{Op: op, Silent: true, Flags: flags}, nil)
	nd.Assert(err == nil, "store-fails")
	for i := 0; i < k; i++ {
		got, clean := c09bits(mb.l[i])
		nd.Assert(clean, "message-carries-duplicate-or-foreign-flag")
		for f := 0; f < 4; f++ {
			want := pre[i][f]
			if i == target {
				switch op {
				case imap.StoreFlagsSet:
					want = named[f]
				case imap.StoreFlagsAdd:
					want = pre[i][f] || named[f]
				case imap.StoreFlagsDel:
					want = pre[i][f] && !named[f]
				}
				nd.Assert(got[f] == want, "store-result-differs-from-flag-set-model")
			} else {
				nd.Assert(got[f] == want, "store-changed-a-message-that-was-not-addressed")
			}
		}
	}
	nd.Reach("stored")
}

// ---------------------------------------------------------------------------
// EXPUNGE / UID EXPUNGE

func VerifC09Expunge() {
	k := nd.Param("k")
	mb, uids, next := c09state(k)
	del := make([]bool, k)
	orig := make([]*message, k)
	for i := 0; i < k; i++ {
		orig[i] = mb.l[i]
		del[i] = nd.Bool()
		if del[i] {
			spell := []string{"\\Deleted", "\\DELETED", "\\deleted"}[nd.Choice(3)]
			mb.l[i].flags[canonicalFlag(imap.Flag(spell))] = struct{}{}
		}
		if i == 0 && nd.Bool() {
			mb.l[i].flags[canonicalFlag(imap.FlagSeen)] = struct{}{}
		}
	}
	var filter *imap.UIDSet
	var a, b uint32
	if nd.Bool() {
		a, b = nd.Uint32(), nd.Uint32()
		nd.Assume(a != 0)
		nd.Assume(b != 0)
		var us imap.UIDSet
		us.AddRange(imap.UID(a), imap.UID(b))
		filter = &us
	}
	err := mb.Expunge(nil, filter)
	nd.Assert(err == nil, "expunge-fails")
	// reference: exactly the \Deleted messages (inside the UID set, if given) leave;
	// the others keep their relative order; UIDNEXT is untouched
	var want []*message
	for i := 0; i < k; i++ {
		gone := del[i]
		if filter != nil {
			lo := nd.IteU32(a <= b, a, b)
			hi := nd.IteU32(a <= b, b, a)
			gone = nd.And(gone, nd.And(lo <= uids[i], uids[i] <= hi))
		}
		if !gone {
			want = append(want, orig[i])
		}
	}
	nd.Assert(len(mb.l) == len(want), "expunge-removed-wrong-number-of-messages")
	for i := range want {
		nd.Assert(mb.l[i] == want[i], "expunge-removed-or-reordered-wrong-messages")
	}
	nd.Assert(uint32(mb.uidNext) == next, "expunge-changed-uidnext")
	nd.Reach("expunged")
}

// ---------------------------------------------------------------------------
// APPEND / COPY: UID allocation

func VerifC09Append() {
	k := nd.Param("k")
	mb, uids, next := c09state(k)
	viaCopy := nd.Bool()
	var data *imap.AppendData
	if viaCopy {
		src := &message{uid: imap.UID(nd.Uint32()), buf: []byte("x: y\r\n\r\nz"), flags: map[imap.Flag]struct{}{canonicalFlag(imap.FlagFlagged): {}}, t: time.Date(2020, 2, 2, 0, 0, 0, 0, time.UTC)}
		data = mb.copyMsg(src)
	} else {
		data = mb.appendBytes([]byte("a: b\r\n\r\nc"), &imap.AppendOptions{Flags: []imap.Flag{"\\SEEN"}, Time: time.Date(2021, 3, 3, 0, 0, 0, 0, time.UTC)})
	}
	nd.Assert(uint32(data.UID) == next, "new-message-uid-is-not-the-announced-uidnext")
	nd.Assert(data.UIDValidity == 7, "appenduid-names-wrong-uidvalidity")
	nd.Assert(uint32(mb.uidNext) == next+1, "uidnext-not-advanced-by-one")
	nd.Assert(len(mb.l) == k+1, "append-did-not-add-exactly-one-message")
	last := mb.l[k]
	nd.Assert(last.uid == data.UID, "appenduid-does-not-name-the-new-message")
	for i := 0; i < k; i++ {
		nd.Assert(uint32(mb.l[i].uid) == uids[i], "append-disturbed-existing-messages")
		nd.Assert(uint32(last.uid) > uids[i], "new-uid-not-larger-than-existing-uids")
	}
	if viaCopy {
		_, ok := last.flags[canonicalFlag(imap.FlagFlagged)]
		nd.Assert(ok && len(last.flags) == 1, "copy-lost-or-invented-flags")
		nd.Assert(last.t.Equal(time.Date(2020, 2, 2, 0, 0, 0, 0, time.UTC)), "copy-lost-internal-date")
	} else {
		_, ok := last.flags[canonicalFlag(imap.FlagSeen)]
		nd.Assert(ok && len(last.flags) == 1, "append-flags-not-stored-case-insensitively")
	}
	nd.Reach("appended")
}

// ---------------------------------------------------------------------------
// STATUS

func VerifC09Status() {
	k := nd.Param("k")
	mb, _, next := c09state(k)
	var seen, del uint32
	for i := 0; i < k; i++ {
		if nd.Bool() {
			mb.l[i].flags[canonicalFlag("\\SEEN")] = struct{}{}
			seen++
		}
		if nd.Bool() {
			mb.l[i].flags[canonicalFlag("\\Deleted")] = struct{}{}
			del++
		}
	}
	opts := &imap.StatusOptions{NumMessages: nd.Bool(), UIDNext: nd.Bool(), UIDValidity: nd.Bool(), NumUnseen: nd.Bool(), NumDeleted: nd.Bool(), Size: nd.Bool()}
	d := mb.StatusData(opts)
	nd.Assert(d.Mailbox == "m", "status-names-wrong-mailbox")
	nd.Assert((d.NumMessages != nil) == opts.NumMessages, "status-item-presence-differs-from-request")
	nd.Assert((d.NumUnseen != nil) == opts.NumUnseen, "status-item-presence-differs-from-request")
	nd.Assert((d.NumDeleted != nil) == opts.NumDeleted, "status-item-presence-differs-from-request")
	nd.Assert((d.Size != nil) == opts.Size, "status-item-presence-differs-from-request")
	if d.NumMessages != nil {
		nd.Assert(*d.NumMessages == uint32(k), "status-messages-wrong")
	}
	if d.NumUnseen != nil {
		nd.Assert(*d.NumUnseen == uint32(k)-seen, "status-unseen-wrong")
	}
	if d.NumDeleted != nil {
		nd.Assert(*d.NumDeleted == del, "status-deleted-wrong")
	}
	if d.Size != nil {
		nd.Assert(*d.Size == int64(k*len(c09msgs[0])), "status-size-wrong")
	}
	if opts.UIDNext {
		nd.Assert(uint32(d.UIDNext) == next, "status-uidnext-wrong")
	}
	if opts.UIDValidity {
		nd.Assert(d.UIDValidity == 7, "status-uidvalidity-wrong")
	}
	nd.Reach("status")
}

// ---------------------------------------------------------------------------
// mailbox namespace: CREATE / DELETE / RENAME and UIDVALIDITY

func VerifC09Namespace() {
	steps := nd.Param("steps")
	u := NewUser("u", "p")
	names := []string{"a", "b", "a/c"}
	type ent struct {
		exists   bool
		validity uint32
		obj      *Mailbox
	}
	model := make([]ent, len(names))
	var maxHanded uint32
	for s := 0; s < steps; s++ {
		x := nd.Choice(len(names))
		switch nd.Choice(3) {
		case 0: // CREATE (optionally with a trailing delimiter)
			n := names[x]
			if nd.Bool() {
				n += "/"
			}
			err := u.Create(n, nil)
			nd.Assert((err == nil) == !model[x].exists, "create-outcome-differs-from-model")
			if err == nil {
				mb := u.mailboxes[names[x]]
				nd.Assert(mb != nil, "created-mailbox-not-found-under-its-name")
				nd.Assert(mb.uidValidity > maxHanded, "uidvalidity-of-new-mailbox-not-larger-than-every-earlier-one")
				nd.Assert(mb.uidNext == 1 && len(mb.l) == 0, "new-mailbox-not-empty")
				maxHanded = mb.uidValidity
				model[x] = ent{true, mb.uidValidity, mb}
			}
		case 1: // DELETE
			err := u.Delete(names[x])
			nd.Assert((err == nil) == model[x].exists, "delete-outcome-differs-from-model")
			if err == nil {
				model[x] = ent{}
			}
		default: // RENAME x -> y
			y := nd.Choice(len(names))
			err := u.Rename(names[x], names[y])
			ok := model[x].exists && !model[y].exists
			nd.Assert((err == nil) == ok, "rename-outcome-differs-from-model")
			if err == nil {
				model[y] = model[x]
				model[x] = ent{}
			}
		}
		// the namespace equals the model
		n := 0
		for i := range names {
			mb := u.mailboxes[names[i]]
			nd.Assert((mb != nil) == model[i].exists, "mailbox-existence-differs-from-model")
			if mb != nil {
				n++
				nd.Assert(mb == model[i].obj && mb.uidValidity == model[i].validity, "mailbox-identity-or-uidvalidity-changed")
				nd.Assert(mb.name == names[i], "mailbox-name-not-updated")
			}
		}
		nd.Assert(len(u.mailboxes) == n, "unexpected-mailbox-in-namespace")
	}
	nd.Reach("namespace")
}

// ---------------------------------------------------------------------------
// SEARCH (flags, sets, sizes, internal date, NOT/OR) against a reference matcher

var c09dates = []time.Time{
	{},
	time.Date(2024, 1, 4, 0, 0, 0, 0, time.UTC),
	time.Date(2024, 1, 5, 0, 0, 0, 0, time.UTC),
	time.Date(2024, 1, 6, 0, 0, 0, 0, time.UTC),
}

var c09times = []time.Time{
	time.Date(2024, 1, 5, 0, 0, 0, 0, time.UTC),
	time.Date(2024, 1, 5, 23, 59, 59, 0, time.FixedZone("", -8*3600)),
	time.Date(2024, 1, 4, 12, 0, 0, 0, time.FixedZone("", 5*3600)),
}

// day numbers (days since 2024-01-01) of the calendar date of c09times / c09dates,
// ignoring the zone (RFC 3501: the date is compared disregarding time and timezone)
var c09timeDay = []int{4, 4, 3}
var c09dateDay = []int{-1, 3, 4, 5}

type c09crit struct {
	flag, notFlag  int // -1 or index into the universe
	larger         int64
	smaller        int64
	since, before  int // index into c09dates (0 = unset)
	hasUID, hasSeq bool
	ua, ub, sa, sb uint32
}

// c09genFlags: optional flag key / optional unflag key over the first three flags.
func c09genFlags(m *c09crit, c *imap.SearchCriteria, spell int) {
	if x := nd.Choice(4); x < 3 {
		m.flag = x
		v := c09universe[x]
		c.Flag = []imap.Flag{imap.Flag(v[spell%len(v)])}
	}
	if x := nd.Choice(4); x < 3 {
		m.notFlag = x
		v := c09universe[x]
		c.NotFlag = []imap.Flag{imap.Flag(v[(spell+1)%len(v)])}
	}
}

// c09genSub: a sub-key of NOT / OR: one flag or one unflag key.
func c09genSub() (c09crit, *imap.SearchCriteria) {
	m := c09crit{flag: -1, notFlag: -1}
	c := &imap.SearchCriteria{}
	x := nd.Choice(3)
	if nd.Bool() {
		m.flag = x
		c.Flag = []imap.Flag{imap.Flag(c09universe[x][1])}
	} else {
		m.notFlag = x
		c.NotFlag = []imap.Flag{imap.Flag(c09universe[x][0])}
	}
	return m, c
}

func c09genNumeric(m *c09crit, c *imap.SearchCriteria) {
	m.larger, m.smaller = nd.Int64(), nd.Int64()
	nd.Assume(m.larger >= 0)
	nd.Assume(m.smaller >= 0)
	c.Larger, c.Smaller = m.larger, m.smaller
	if nd.Bool() {
		m.hasUID = true
		m.ua, m.ub = nd.Uint32(), nd.Uint32()
		nd.Assume(m.ua != 0)
		nd.Assume(m.ub != 0)
		var us imap.UIDSet
		us.AddRange(imap.UID(m.ua), imap.UID(m.ub))
		c.UID = []imap.UIDSet{us}
	}
	if nd.Bool() {
		m.hasSeq = true
		m.sa, m.sb = nd.Uint32(), nd.Uint32()
		nd.Assume(m.sa != 0)
		nd.Assume(m.sb != 0)
		var ss imap.SeqSet
		ss.AddRange(m.sa, m.sb)
		c.SeqNum = []imap.SeqSet{ss}
	}
}

func c09match(m c09crit, bits [4]bool, size int64, day int, uid, seq uint32) bool {
	r := true
	if m.flag >= 0 {
		r = nd.And(r, bits[m.flag])
	}
	if m.notFlag >= 0 {
		r = nd.And(r, !bits[m.notFlag])
	}
	// zero means "unset" for LARGER/SMALLER in the criteria type
	r = nd.And(r, nd.Or(m.larger == 0, size > m.larger))
	r = nd.And(r, nd.Or(m.smaller == 0, size < m.smaller))
	if m.since > 0 {
		r = nd.And(r, day >= c09dateDay[m.since])
	}
	if m.before > 0 {
		r = nd.And(r, day < c09dateDay[m.before])
	}
	if m.hasUID {
		r = nd.And(r, c09inRange(m.ua, m.ub, uid, 0))
	}
	if m.hasSeq {
		r = nd.And(r, c09inRange(m.sa, m.sb, seq, 0))
	}
	return r
}

// VerifC09Search: mode 0 = flag keys with NOT/OR nesting (+ one symbolic size bound);
// mode 1 = sizes, UID and sequence ranges (symbolic) x SINCE/BEFORE x internal date.
func VerifC09Search() {
	mode := nd.Param("mode")
	var bits [4]bool
	msg := &message{buf: []byte(c09msgs[0]), flags: map[imap.Flag]struct{}{}}
	nbits := 3
	if mode == 1 {
		nbits = 1
	}
	for f := 0; f < nbits; f++ {
		bits[f] = nd.Bool()
		if bits[f] {
			msg.flags[canonicalFlag(imap.Flag(c09universe[f][0]))] = struct{}{}
		}
	}
	ti := 0
	if mode == 1 {
		ti = nd.Choice(len(c09times))
	}
	msg.t = c09times[ti]
	uid, seq := nd.Uint32(), nd.Uint32()
	nd.Assume(uid != 0)
	nd.Assume(seq != 0)
	msg.uid = imap.UID(uid)
	size := int64(len(msg.buf))
	day := c09timeDay[ti]

	m := c09crit{flag: -1, notFlag: -1}
	c := &imap.SearchCriteria{}
	want := true
	if mode == 0 {
		c09genFlags(&m, c, nd.Choice(2))
		m.larger = nd.Int64()
		nd.Assume(m.larger >= 0)
		c.Larger = m.larger
		want = c09match(m, bits, size, day, uid, seq)
		switch nd.Choice(3) {
		case 1: // NOT sub
			sm, sc := c09genSub()
			c.Not = []imap.SearchCriteria{*sc}
			want = nd.And(want, !c09match(sm, bits, size, day, uid, seq))
		case 2: // OR sub1 sub2 (the second operand from a smaller family)
			s1, c1 := c09genSub()
			s2 := c09crit{flag: -1, notFlag: -1}
			c2 := &imap.SearchCriteria{}
			if nd.Bool() {
				s2.flag = 2
				c2.Flag = []imap.Flag{"CUSTOM"}
			} else {
				s2.notFlag = 0
				c2.NotFlag = []imap.Flag{"\\SEEN"}
			}
			c.Or = [][2]imap.SearchCriteria{{*c1, *c2}}
			want = nd.And(want, nd.Or(c09match(s1, bits, size, day, uid, seq), c09match(s2, bits, size, day, uid, seq)))
		}
	} else {
		if nd.Bool() {
			m.notFlag = 0
			c.NotFlag = []imap.Flag{"\\sEEN"}
		}
		c09genNumeric(&m, c)
		m.since, m.before = nd.Choice(len(c09dates)), nd.Choice(len(c09dates))
		c.Since, c.Before = c09dates[m.since], c09dates[m.before]
		want = c09match(m, bits, size, day, uid, seq)
	}
	got := msg.search(seq, c)
	nd.Assert(nd.Iff(got, want), "search-result-differs-from-reference-matcher")
	nd.Reach("searched")
}

// ---------------------------------------------------------------------------
// SEARCH through the mailbox view: '*' and ranges in sequence/UID sets at the top level
// and below NOT / OR must be resolved against the mailbox (RFC 9051 6.4.4).

func VerifC09ViewSearch() {
	k := nd.Param("k")
	mb, uids, _ := c09state(k)
	view := mb.NewView()
	uidKey := nd.Bool()
	a, b := nd.Uint32(), nd.Uint32()
	var key imap.SearchCriteria
	if uidKey {
		var us imap.UIDSet
		us.AddRange(imap.UID(a), imap.UID(b))
		key.UID = []imap.UIDSet{us}
	} else {
		var ss imap.SeqSet
		ss.AddRange(a, b)
		key.SeqNum = []imap.SeqSet{ss}
	}
	// a second, concrete key: message 1
	var one imap.SearchCriteria
	one.SeqNum = []imap.SeqSet{imap.SeqSetNum(1)}
	shape := nd.Choice(4)
	var c imap.SearchCriteria
	switch shape {
	case 0:
		c = key
	case 1:
		c.Not = []imap.SearchCriteria{key}
	case 2:
		c.Or = [][2]imap.SearchCriteria{{key, one}}
	default:
		c.Or = [][2]imap.SearchCriteria{{one, key}}
	}
	kind := imapserver.NumKindSeq
	if nd.Bool() {
		kind = imapserver.NumKindUID
	}
	data, err := view.Search(kind, &c, &imap.SearchOptions{})
	nd.Assert(err == nil && data != nil, "search-fails")
	var max uint32
	if uidKey {
		if k > 0 {
			max = uids[k-1]
		}
	} else {
		max = uint32(k)
	}
	var count uint32
	for i := 0; i < k; i++ {
		x := uint32(i + 1)
		if uidKey {
			x = uids[i]
		}
		in := c09inRange(a, b, x, max)
		want := in
		switch shape {
		case 1:
			want = !in
		case 2, 3:
			want = nd.Or(in, i == 0)
		}
		got := false
		switch all := data.All.(type) {
		case imap.SeqSet:
			got = all.Contains(uint32(i + 1))
		case imap.UIDSet:
			got = all.Contains(imap.UID(uids[i]))
		default:
			nd.Fail("search-result-has-no-number-set")
		}
		nd.Assert(nd.Iff(got, want), "view-search-result-differs-from-reference")
		if want {
			count++
		}
	}
	nd.Assert(data.Count == count, "view-search-count-differs-from-reference")
	nd.Reach("view-searched")
}

// ---------------------------------------------------------------------------
// SEARCH over the wire: the server's key parser (which folds keys with
// SearchCriteria.And) in front of the backend's matcher, against per-key predicates.

var c09wireKeys = []struct {
	text string
	hit  [3]bool // messages of 40 / 140 (\Seen) / 240 octets, UIDs 1..3, internal date 1-Jan-2024
}{
	{"SMALLER 200", [3]bool{true, true, false}},
	{"LARGER 100", [3]bool{false, true, true}},
	{"SEEN", [3]bool{false, true, false}},
	{"UNSEEN", [3]bool{true, false, true}},
	{"SINCE 1-Jan-2020", [3]bool{true, true, true}},
	{"BEFORE 1-Jan-2030", [3]bool{true, true, true}},
	{"ON 1-Jan-2024", [3]bool{true, true, true}},
	{"2:3", [3]bool{false, true, true}},
	{"UID 1:2", [3]bool{true, true, false}},
	{"NOT LARGER 200", [3]bool{true, true, false}},
	{"OR SEEN SMALLER 100", [3]bool{true, true, false}},
	{"SENTSINCE 1-Jan-2020", [3]bool{true, true, true}},
}

func VerifC09WireSearch() {
	mem := New()
	user := NewUser("u", "p")
	mem.AddUser(user)
	user.Create("m", nil)
	mbox := user.mailboxes["m"]
	hdr := "Date: Mon, 01 Jan 2024 00:00:00 +0000\r\nSubject: x\r\n\r\n"
	for i, n := range []int{40, 140, 240} {
		body := []byte(hdr)
		for len(body) < n {
			body = append(body, 'b')
		}
		opts := &imap.AppendOptions{Time: time.Date(2024, 1, 1, 12, 0, 0, 0, time.UTC)}
		if i == 1 {
			opts.Flags = []imap.Flag{imap.FlagSeen}
		}
		mbox.appendBytes(body, opts)
	}
	lg := &c08log{}
	srv := imapserver.New(&imapserver.Options{
		NewSession: func(conn *imapserver.Conn) (imapserver.Session, *imapserver.GreetingData, error) {
			return mem.NewSession(), nil, nil
		},
		Caps:         imap.CapSet{imap.CapIMAP4rev1: {}},
		InsecureAuth: true,
		Logger:       lg,
	})
	conn := &c08conn{}
	cl := &c08client{conn: conn}
	srv.Serve(&c08ln{conns: []*c08conn{conn}})
	st, _ := cl.run('O', "LOGIN u p")
	nd.Assert(st == "OK", "login-failed")
	st, _ = cl.run('O', "SELECT m")
	nd.Assert(st == "OK", "select-failed")
	nk := 1 + nd.Choice(3)
	cmd := "SEARCH"
	want := [3]bool{true, true, true}
	for i := 0; i < nk; i++ {
		k := c09wireKeys[nd.Choice(len(c09wireKeys))]
		cmd += " " + k.text
		for j := range want {
			want[j] = want[j] && k.hit[j]
		}
	}
	st, hits := cl.run('F', cmd)
	nd.Assert(st == "OK", "search-command-failed")
	var got [3]bool
	for _, h := range hits {
		if h >= 1 && h <= 3 {
			got[h-1] = true
		}
	}
	nd.Assert(got == want, "wire-search-result-differs-from-the-conjunction-of-its-keys")
	nd.Assert(lg.panics == 0, "server-logged-a-panic")
	conn.eof = true
	nd.Reach("wire-searched")
}
