package imapclient

// Shared scaffolding for the client-side harnesses (injected by overlay): a scripted
// net.Conn and helpers that build a Client directly in a given state.

import (
	"bufio"
	"io"
	"net"
	"time"

	"github.com/emersion/go-imap/v2"
	"github.com/emersion/go-imap/v2/internal/imapwire"
)

type vcAddr struct{}

func (vcAddr) Network() string { return "verif" }
func (vcAddr) String() string  { return "verif" }

type vcTimeout struct{}

func (vcTimeout) Error() string   { return "verif: i/o timeout" }
func (vcTimeout) Timeout() bool   { return true }
func (vcTimeout) Temporary() bool { return true }

// vcConn is the scripted server side of a connection.
type vcConn struct {
	in       []byte
	pos      int
	maxRead  int
	avail    func(c *vcConn) int // how much of in has been "sent" so far
	silent   bool
	out      []byte
	closed   int
	reads    int
	readErr  error
	errAt    int
	writeErr error
	writeAt  int // fail writes once len(out) >= writeAt (when writeErr != nil)
	deadline int
}

func (c *vcConn) Read(p []byte) (int, error) {
	c.reads++
	if c.closed > 0 {
		return 0, net.ErrClosed
	}
	limit := len(c.in)
	if c.avail != nil {
		if a := c.avail(c); a < limit {
			limit = a
		}
	}
	if c.readErr != nil && c.errAt < limit {
		limit = c.errAt
	}
	if c.pos >= limit {
		if c.readErr != nil && c.pos >= c.errAt {
			return 0, c.readErr
		}
		if limit < len(c.in) || c.silent {
			return 0, vcTimeout{}
		}
		return 0, io.EOF
	}
	n := limit - c.pos
	if n > len(p) {
		n = len(p)
	}
	if c.maxRead > 0 && n > c.maxRead {
		n = c.maxRead
	}
	copy(p, c.in[c.pos:c.pos+n])
	c.pos += n
	return n, nil
}

func (c *vcConn) Write(p []byte) (int, error) {
	if c.closed > 0 {
		return 0, net.ErrClosed
	}
	if c.writeErr != nil && len(c.out) >= c.writeAt {
		return 0, c.writeErr
	}
	c.out = append(c.out, p...)
	return len(p), nil
}

func (c *vcConn) Close() error {
	c.closed++
	if c.closed > 1 {
		return net.ErrClosed
	}
	return nil
}
func (c *vcConn) LocalAddr() net.Addr                { return vcAddr{} }
func (c *vcConn) RemoteAddr() net.Addr               { return vcAddr{} }
func (c *vcConn) SetDeadline(t time.Time) error      { c.deadline++; return nil }
func (c *vcConn) SetReadDeadline(t time.Time) error  { c.deadline++; return nil }
func (c *vcConn) SetWriteDeadline(t time.Time) error { c.deadline++; return nil }

// vcDirect builds a Client around vc without starting the reader goroutine: the harness
// calls readResponse itself.
func vcDirect(vc *vcConn, state imap.ConnState, options *Options) *Client {
	if options == nil {
		options = &Options{}
	}
	br := bufio.NewReader(vc)
	bw := bufio.NewWriter(vc)
	return &Client{
		conn:         vc,
		options:      *options,
		br:           br,
		bw:           bw,
		dec:          imapwire.NewDecoder(br, imapwire.ConnSideClient),
		greetingCh:   make(chan struct{}),
		decCh:        make(chan struct{}),
		state:        state,
		enabled:      make(imap.CapSet),
		greetingRecv: true,
		caps:         imap.CapSet{imap.CapIMAP4rev1: {}},
	}
}

// vcPend registers cmd as pending with the next tag (what beginCommand does, minus the I/O).
func vcPend(c *Client, cmd command) string {
	c.cmdTag++
	tag := "T" + vcItoa(int(c.cmdTag))
	*cmd.base() = Command{tag: tag, done: make(chan error, 1)}
	c.pendingCmds = append(c.pendingCmds, cmd)
	return tag
}

func vcItoa(n int) string {
	if n == 0 {
		return "0"
	}
	var b []byte
	for n > 0 {
		b = append([]byte{byte('0' + n%10)}, b...)
		n /= 10
	}
	return string(b)
}

// vcDone reports whether cmd has completed and with which error (non-blocking).
func vcDone(cmd command) (done bool, err error) {
	select {
	case e, ok := <-cmd.base().done:
		if ok {
			return true, e
		}
		return true, cmd.base().err
	default:
		return false, nil
	}
}

func vcHasPrefix(s, p string) bool { return len(s) >= len(p) && s[:len(p)] == p }
