package imapserver

// Shared scaffolding for the server-side harnesses (injected by overlay): a scripted
// net.Conn, a recording Session and Logger. Nothing here touches the code under test.

import (
	"io"
	"net"
	"time"

	"github.com/emersion/go-imap/v2"
)

type vAddr struct{}

func (vAddr) Network() string { return "verif" }
func (vAddr) String() string  { return "verif" }

// vTimeout is what a read returns when the scripted peer has nothing more to say but has
// not closed: in real life the server's read deadline fires.
type vTimeout struct{}

func (vTimeout) Error() string   { return "verif: i/o timeout" }
func (vTimeout) Timeout() bool   { return true }
func (vTimeout) Temporary() bool { return true }

// vConn is a scripted peer. in is what the peer sends; avail (when set) says how much of it
// has been sent so far as a function of what the server has written; at the end of the
// script the peer either closes (EOF) or stays silent (timeout).
type vConn struct {
	in       []byte
	pos      int
	maxRead  int
	avail    func(c *vConn) int
	silent   bool // end of script: stay silent (timeout) instead of closing
	out      []byte
	closed   int
	reads    int
	writes   int
	readErr  error // if set: returned once pos reaches readErrAt
	errAt    int
	deadline int
	writeErr error // if set: writes fail once len(out) would exceed writeAt
	writeAt  int
}

func (c *vConn) Read(p []byte) (int, error) {
	c.reads++
	if c.closed > 0 {
		return 0, net.ErrClosed
	}
	limit := len(c.in)
	if c.avail != nil {
		if a := c.avail(c); a < limit {
			limit = a
		}
	}
	if c.readErr != nil && c.errAt < limit {
		limit = c.errAt
	}
	if c.pos >= limit {
		if c.readErr != nil && c.pos >= c.errAt {
			return 0, c.readErr
		}
		if limit < len(c.in) || c.silent {
			return 0, vTimeout{}
		}
		return 0, io.EOF
	}
	n := limit - c.pos
	if n > len(p) {
		n = len(p)
	}
	if c.maxRead > 0 && n > c.maxRead {
		n = c.maxRead
	}
	copy(p, c.in[c.pos:c.pos+n])
	c.pos += n
	return n, nil
}

func (c *vConn) Write(p []byte) (int, error) {
	c.writes++
	if c.closed > 0 {
		return 0, net.ErrClosed
	}
	if c.writeErr != nil && len(c.out)+len(p) > c.writeAt {
		n := c.writeAt - len(c.out)
		if n < 0 {
			n = 0
		}
		c.out = append(c.out, p[:n]...)
		return n, c.writeErr
	}
	c.out = append(c.out, p...)
	return len(p), nil
}

func (c *vConn) Close() error {
	c.closed++
	return nil
}

func (c *vConn) LocalAddr() net.Addr                { return vAddr{} }
func (c *vConn) RemoteAddr() net.Addr               { return vAddr{} }
func (c *vConn) SetDeadline(t time.Time) error      { c.deadline++; return nil }
func (c *vConn) SetReadDeadline(t time.Time) error  { c.deadline++; return nil }
func (c *vConn) SetWriteDeadline(t time.Time) error { c.deadline++; return nil }

type vLogger struct {
	n      int
	panics int
	last   string
}

func (l *vLogger) Printf(format string, args ...interface{}) {
	l.n++
	l.last = format
	if len(format) >= 5 && format[:5] == "panic" {
		l.panics++
	}
}

// vCall is one operation that reached the backend.
type vCall struct {
	op       string
	s1, s2   string
	strs     []string
	lit      []byte
	numKind  NumKind
	numSet   imap.NumSet
	criteria *imap.SearchCriteria
	sopts    *imap.SearchOptions
	fopts    *imap.FetchOptions
	flags    *imap.StoreFlags
	stopts   *imap.StoreOptions
	lopts    *imap.ListOptions
	statOpts *imap.StatusOptions
	selOpts  *imap.SelectOptions
	appOpts  *imap.AppendOptions
	uids     *imap.UIDSet
	state    imap.ConnState // connection state observed when the call arrived
}

// vSession records every call; fail[op] makes that operation return an error.
type vSession struct {
	conn   *Conn
	calls  []vCall
	fail   map[string]bool
	closed int
	// backend Idle calls started / returned
	idleStarted, idleReturned int
	// Append fails without reading the message literal (e.g. no such mailbox)
	appendRejectEarly bool
	// optional behaviours
	onList   func(w *ListWriter) error
	onFetch  func(w *FetchWriter) error
	onSearch func() (*imap.SearchData, error)
	onPoll   func(w *UpdateWriter, allowExpunge bool) error
	onIdle   func(w *UpdateWriter, stop <-chan struct{}) error
}

var vErrBackend = &imap.Error{Type: imap.StatusResponseTypeNo, Text: "backend says no"}

func (s *vSession) rec(c vCall) error {
	if s.conn != nil {
		c.state = s.conn.state
	}
	s.calls = append(s.calls, c)
	if s.fail[c.op] {
		return vErrBackend
	}
	return nil
}

func (s *vSession) count(op string) int {
	n := 0
	for _, c := range s.calls {
		if c.op == op {
			n++
		}
	}
	return n
}

// ops returns the recorded operations except Poll (which every command triggers).
func (s *vSession) ops() []vCall {
	var r []vCall
	for _, c := range s.calls {
		if c.op != "Poll" {
			r = append(r, c)
		}
	}
	return r
}

func (s *vSession) Close() error { s.closed++; return nil }
func (s *vSession) Login(username, password string) error {
	return s.rec(vCall{op: "Login", s1: username, s2: password})
}
func (s *vSession) Select(mailbox string, options *imap.SelectOptions) (*imap.SelectData, error) {
	if err := s.rec(vCall{op: "Select", s1: mailbox, selOpts: options}); err != nil {
		return nil, err
	}
	return &imap.SelectData{Flags: []imap.Flag{imap.FlagSeen}, PermanentFlags: []imap.Flag{imap.FlagSeen}, NumMessages: 3, UIDNext: 10, UIDValidity: 1}, nil
}
func (s *vSession) Create(mailbox string, options *imap.CreateOptions) error {
	return s.rec(vCall{op: "Create", s1: mailbox})
}
func (s *vSession) Delete(mailbox string) error { return s.rec(vCall{op: "Delete", s1: mailbox}) }
func (s *vSession) Rename(mailbox, newName string) error {
	return s.rec(vCall{op: "Rename", s1: mailbox, s2: newName})
}
func (s *vSession) Subscribe(mailbox string) error {
	return s.rec(vCall{op: "Subscribe", s1: mailbox})
}
func (s *vSession) Unsubscribe(mailbox string) error {
	return s.rec(vCall{op: "Unsubscribe", s1: mailbox})
}
func (s *vSession) List(w *ListWriter, ref string, patterns []string, options *imap.ListOptions) error {
	if err := s.rec(vCall{op: "List", s1: ref, strs: patterns, lopts: options}); err != nil {
		return err
	}
	if s.onList != nil {
		return s.onList(w)
	}
	return nil
}
func (s *vSession) Status(mailbox string, options *imap.StatusOptions) (*imap.StatusData, error) {
	if err := s.rec(vCall{op: "Status", s1: mailbox, statOpts: options}); err != nil {
		return nil, err
	}
	n, sz, lim := uint32(3), int64(42), uint32(1000)
	return &imap.StatusData{Mailbox: mailbox, NumMessages: &n, UIDNext: 10, UIDValidity: 1, NumUnseen: &n, NumDeleted: &n, Size: &sz, AppendLimit: &lim, DeletedStorage: &sz}, nil
}
func (s *vSession) Append(mailbox string, r imap.LiteralReader, options *imap.AppendOptions) (*imap.AppendData, error) {
	if s.appendRejectEarly {
		s.rec(vCall{op: "AppendRejected", s1: mailbox, appOpts: options})
		return nil, vErrBackend
	}
	var lit []byte
	buf := make([]byte, 64)
	for {
		n, err := r.Read(buf)
		lit = append(lit, buf[:n]...)
		if err != nil {
			if err != io.EOF {
				s.rec(vCall{op: "AppendReadError", s1: mailbox, lit: lit})
				return nil, err
			}
			break
		}
	}
	if err := s.rec(vCall{op: "Append", s1: mailbox, lit: lit, appOpts: options}); err != nil {
		return nil, err
	}
	return &imap.AppendData{UID: 7, UIDValidity: 1}, nil
}
func (s *vSession) Poll(w *UpdateWriter, allowExpunge bool) error {
	s.rec(vCall{op: "Poll"})
	if s.onPoll != nil {
		return s.onPoll(w, allowExpunge)
	}
	return nil
}
func (s *vSession) Idle(w *UpdateWriter, stop <-chan struct{}) error {
	if err := s.rec(vCall{op: "Idle"}); err != nil {
		return err
	}
	s.idleStarted++
	defer func() { s.idleReturned++ }()
	if s.onIdle != nil {
		return s.onIdle(w, stop)
	}
	<-stop
	return nil
}

// vSettle lets the other goroutines run until cond holds (bounded).
func vSettle(cond func() bool) {
	for i := 0; i < 200 && (i < 3 || !cond()); i++ {
		time.Sleep(time.Millisecond) // (a yield under the executor)
	}
}
func (s *vSession) Unselect() error { return s.rec(vCall{op: "Unselect"}) }
func (s *vSession) Expunge(w *ExpungeWriter, uids *imap.UIDSet) error {
	return s.rec(vCall{op: "Expunge", uids: uids})
}
func (s *vSession) Search(kind NumKind, criteria *imap.SearchCriteria, options *imap.SearchOptions) (*imap.SearchData, error) {
	if err := s.rec(vCall{op: "Search", numKind: kind, criteria: criteria, sopts: options}); err != nil {
		return nil, err
	}
	if s.onSearch != nil {
		return s.onSearch()
	}
	if kind == NumKindUID {
		return &imap.SearchData{All: imap.UIDSet(nil), UID: true}, nil
	}
	return &imap.SearchData{All: imap.SeqSet(nil)}, nil
}
func (s *vSession) Fetch(w *FetchWriter, numSet imap.NumSet, options *imap.FetchOptions) error {
	if err := s.rec(vCall{op: "Fetch", numSet: numSet, fopts: options}); err != nil {
		return err
	}
	if s.onFetch != nil {
		return s.onFetch(w)
	}
	return nil
}
func (s *vSession) Store(w *FetchWriter, numSet imap.NumSet, flags *imap.StoreFlags, options *imap.StoreOptions) error {
	return s.rec(vCall{op: "Store", numSet: numSet, flags: flags, stopts: options})
}
func (s *vSession) Copy(numSet imap.NumSet, dest string) (*imap.CopyData, error) {
	if err := s.rec(vCall{op: "Copy", numSet: numSet, s1: dest}); err != nil {
		return nil, err
	}
	return nil, nil
}
func (s *vSession) Namespace() (*imap.NamespaceData, error) {
	if err := s.rec(vCall{op: "Namespace"}); err != nil {
		return nil, err
	}
	return &imap.NamespaceData{}, nil
}
func (s *vSession) Move(w *MoveWriter, numSet imap.NumSet, dest string) error {
	return s.rec(vCall{op: "Move", numSet: numSet, s1: dest})
}
func (s *vSession) Unauthenticate() error { return s.rec(vCall{op: "Unauthenticate"}) }

// vServer builds a Server around one recording session.
type vServer struct {
	srv     *Server
	sess    *vSession
	log     *vLogger
	preAuth bool
	newSess int
}

func vNewServer(caps imap.CapSet, insecureAuth bool) *vServer {
	v := &vServer{sess: &vSession{fail: map[string]bool{}}, log: &vLogger{}}
	v.srv = New(&Options{
		NewSession: func(c *Conn) (Session, *GreetingData, error) {
			v.newSess++
			v.sess.conn = c
			return v.sess, &GreetingData{PreAuth: v.preAuth}, nil
		},
		Caps:         caps,
		Logger:       v.log,
		InsecureAuth: insecureAuth,
	})
	return v
}

// vDirectConn builds a connection in a given state without going through serve().
func (v *vServer) vDirectConn(vc *vConn, state imap.ConnState) *Conn {
	c := newConn(vc, v.srv)
	c.session = v.sess
	v.sess.conn = c
	c.state = state
	return c
}

// vLines splits server output into CRLF-terminated lines (last element: unterminated rest).
func vLines(out []byte) (lines []string, rest string) {
	start := 0
	for i := 0; i+1 < len(out); i++ {
		if out[i] == '\r' && out[i+1] == '\n' {
			lines = append(lines, string(out[start:i]))
			start = i + 2
			i++
		}
	}
	return lines, string(out[start:])
}

func vHasPrefix(s, p string) bool { return len(s) >= len(p) && s[:len(p)] == p }
