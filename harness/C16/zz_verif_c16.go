package utf7

// Harness for C16 (modified UTF-7 lossless and safe). Injected by overlay.
// The two tables below are copied verbatim from encoder_test.go / decoder_test.go
// (they pin the oracle and the engine to the repository's own vectors).

import (
	"strings"
	"unicode/utf8"

	nd "github.com/emersion/go-imap/v2/internal/zzverif/nd"
	"golang.org/x/text/transform"
)

func init() {
	nd.Register("VerifC16RoundTrip", VerifC16RoundTrip)
	nd.Register("VerifC16Stream", VerifC16Stream)
	nd.Register("VerifC16Decode", VerifC16Decode)
	nd.Register("VerifC16DecodeStream", VerifC16DecodeStream)
	nd.Register("VerifC16DecodeRun", VerifC16DecodeRun)
	nd.Register("VerifC16EncTable", VerifC16EncTable)
	nd.Register("VerifC16DecTable", VerifC16DecTable)
}

var c16encTable = []struct {
	in  string
	out string
	ok  bool
}{
	// Printable ASCII
	{"", "", true},
	{"a", "a", true},
	{"ab", "ab", true},
	{"-", "-", true},
	{"&", "&-", true},
	{"&&", "&-&-", true},
	{"&&&-&", "&-&-&--&-", true},
	{"-&*&-", "-&-*&--", true},
	{"a&b", "a&-b", true},
	{"a&", "a&-", true},
	{"&b", "&-b", true},
	{"-a&", "-a&-", true},
	{"&b-", "&-b-", true},

	// Unicode range
	{"\u0000", "&AAA-", true},
	{"\n", "&AAo-", true},
	{"\r", "&AA0-", true},
	{"\u001F", "&AB8-", true},
	{"\u0020", " ", true},
	{"\u0025", "%", true},
	{"\u0026", "&-", true},
	{"\u0027", "'", true},
	{"\u007E", "~", true},
	{"\u007F", "&AH8-", true},
	{"\u0080", "&AIA-", true},
	{"\u00FF", "&AP8-", true},
	{"\u07FF", "&B,8-", true},
	{"\u0800", "&CAA-", true},
	{"\uFFEF", "&,+8-", true},
	{"\uFFFF", "&,,8-", true},
	{"\U00010000", "&2ADcAA-", true},
	{"\U0010FFFF", "&2,,f,w-", true},

	// Padding
	{"\x00\x1F", "&AAAAHw-", true},                         // 2
	{"\x00\x1F\x7F", "&AAAAHwB,-", true},                   // 0
	{"\x00\x1F\x7F\u0080", "&AAAAHwB,AIA-", true},          // 1
	{"\x00\x1F\x7F\u0080\u00FF", "&AAAAHwB,AIAA,w-", true}, // 2

	// Mix
	{"a\x00", "a&AAA-", true},
	{"\x00a", "&AAA-a", true},
	{"&\x00", "&-&AAA-", true},
	{"\x00&", "&AAA-&-", true},
	{"a\x00&", "a&AAA-&-", true},
	{"a&\x00", "a&-&AAA-", true},
	{"&a\x00", "&-a&AAA-", true},
	{"&\x00a", "&-&AAA-a", true},
	{"\x00&a", "&AAA-&-a", true},
	{"\x00a&", "&AAA-a&-", true},
	{"ab&\uFFFF", "ab&-&,,8-", true},
	{"a&b\uFFFF", "a&-b&,,8-", true},
	{"&ab\uFFFF", "&-ab&,,8-", true},
	{"ab\uFFFF&", "ab&,,8-&-", true},
	{"a\uFFFFb&", "a&,,8-b&-", true},
	{"\uFFFFab&", "&,,8-ab&-", true},

	{"\x20\x25&\x27\x7E", " %&-'~", true},
	{"\x1F\x20&\x7E\x7F", "&AB8- &-~&AH8-", true},
	{"&\x00\x19\x7F\u0080", "&-&AAAAGQB,AIA-", true},
	{"\x00&\x19\x7F\u0080", "&AAA-&-&ABkAfwCA-", true},
	{"\x00\x19&\x7F\u0080", "&AAAAGQ-&-&AH8AgA-", true},
	{"\x00\x19\x7F&\u0080", "&AAAAGQB,-&-&AIA-", true},
	{"\x00\x19\x7F\u0080&", "&AAAAGQB,AIA-&-", true},
	{"&\x00\x1F\x7F\u0080", "&-&AAAAHwB,AIA-", true},
	{"\x00&\x1F\x7F\u0080", "&AAA-&-&AB8AfwCA-", true},
	{"\x00\x1F&\x7F\u0080", "&AAAAHw-&-&AH8AgA-", true},
	{"\x00\x1F\x7F&\u0080", "&AAAAHwB,-&-&AIA-", true},
	{"\x00\x1F\x7F\u0080&", "&AAAAHwB,AIA-&-", true},

	// Russian
	{"\u041C\u0430\u043A\u0441\u0438\u043C \u0425\u0438\u0442\u0440\u043E\u0432",
		"&BBwEMAQ6BEEEOAQ8- &BCUEOARCBEAEPgQy-", true},

	// RFC 3501
	{"~peter/mail/\u53F0\u5317/\u65E5\u672C\u8A9E", "~peter/mail/&U,BTFw-/&ZeVnLIqe-", true},
	{"~peter/mail/\u53F0\u5317/\u65E5\u672C\u8A9E", "~peter/mail/&U,BTFw-/&ZeVnLIqe-", true},
	{"\u263A!", "&Jjo-!", true},
	{"\u53F0\u5317\u65E5\u672C\u8A9E", "&U,BTF2XlZyyKng-", true},

	// RFC 2152 (modified)
	{"\u0041\u2262\u0391\u002E", "A&ImIDkQ-.", true},
	{"Hi Mom -\u263A-!", "Hi Mom -&Jjo--!", true},
	{"\u65E5\u672C\u8A9E", "&ZeVnLIqe-", true},

	// 8->16 and 24->16 byte UTF-8 to UTF-16 conversion
	{"\u0000\u0001\u0002\u0003\u0004\u0005\u0006\u0007", "&AAAAAQACAAMABAAFAAYABw-", true},
	{"\u0800\u0801\u0802\u0803\u0804\u0805\u0806\u0807", "&CAAIAQgCCAMIBAgFCAYIBw-", true},

	// Invalid UTF-8 (bad bytes are converted to U+FFFD)
	{"\xC0\x80", "&,,3,,Q-", false},                     // U+0000
	{"\xF4\x90\x80\x80", "&,,3,,f,9,,0-", false},        // U+110000
	{"\xF7\xBF\xBF\xBF", "&,,3,,f,9,,0-", false},        // U+1FFFFF
	{"\xF8\x88\x80\x80\x80", "&,,3,,f,9,,3,,Q-", false}, // U+200000
	{"\xF4\x8F\xBF\x3F", "&,,3,,f,9-?", false},          // U+10FFFF (bad byte)
	{"\xF4\x8F\xBF", "&,,3,,f,9-", false},               // U+10FFFF (short)
	{"\xF4\x8F", "&,,3,,Q-", false},
	{"\xF4", "&,,0-", false},
	{"\x00\xF4\x00", "&AAD,,QAA-", false},
}

var c16decTable = []struct {
	in  string
	out string
	ok  bool
}{
	// Basics (the inverse test on encode checks other valid inputs)
	{"", "", true},
	{"abc", "abc", true},
	{"&-abc", "&abc", true},
	{"abc&-", "abc&", true},
	{"a&-b&-c", "a&b&c", true},
	{"&ABk-", "\x19", true},
	{"&AB8-", "\x1F", true},
	{"ABk-", "ABk-", true},
	{"&-,&-&AP8-&-", "&,&\u00FF&", true},
	{"&-&-,&AP8-&-", "&&,\u00FF&", true},
	{"abc &- &AP8A,wD,- &- xyz", "abc & \u00FF\u00FF\u00FF & xyz", true},

	// Illegal code point in ASCII
	{"\x00", "", false},
	{"\x1F", "", false},
	{"abc\n", "", false},
	{"abc\x7Fxyz", "", false},
	{"\uFFFD", "", false},
	{"\u041C", "", false},

	// Invalid Base64 alphabet
	{"&/+8-", "", false},
	{"&*-", "", false},
	{"&ZeVnLIqe -", "", false},

	// CR and LF in Base64
	{"&ZeVnLIqe\r\n-", "", false},
	{"&ZeVnLIqe\r\n\r\n-", "", false},
	{"&ZeVn\r\n\r\nLIqe-", "", false},

	// Padding not stripped
	{"&AAAAHw=-", "", false},
	{"&AAAAHw==-", "", false},
	{"&AAAAHwB,AIA=-", "", false},
	{"&AAAAHwB,AIA==-", "", false},

	// One byte short
	{"&2A-", "", false},
	{"&2ADc-", "", false},
	{"&AAAAHwB,A-", "", false},
	{"&AAAAHwB,A=-", "", false},
	{"&AAAAHwB,A==-", "", false},
	{"&AAAAHwB,A===-", "", false},
	{"&AAAAHwB,AI-", "", false},
	{"&AAAAHwB,AI=-", "", false},
	{"&AAAAHwB,AI==-", "", false},

	// Implicit shift
	{"&", "", false},
	{"&Jjo", "", false},
	{"Jjo&", "", false},
	{"&Jjo&", "", false},
	{"&Jjo!", "", false},
	{"&Jjo+", "", false},
	{"abc&Jjo", "", false},

	// Null shift
	{"&AGE-&Jjo-", "", false},
	{"&U,BTFw-&ZeVnLIqe-", "", false},

	// Long input with Base64 at the end
	{"aaaaaaaaaaaaaaaaaaaaaaaaaaaaaaaaaaaaaaaaaaaaaaaaaaaaaaaaaaaaaaaaaaaaaaaaaaaaaaaaaaaaaaaaaaaaaaaaaaaaaaaaaaaaaaaaaa &2D3eCg- &2D3eCw- &2D3eDg-",
		"aaaaaaaaaaaaaaaaaaaaaaaaaaaaaaaaaaaaaaaaaaaaaaaaaaaaaaaaaaaaaaaaaaaaaaaaaaaaaaaaaaaaaaaaaaaaaaaaaaaaaaaaaaaaaaaaaa \U0001f60a \U0001f60b \U0001f60e", true},

	// Long input in Base64 between short ASCII
	{"00000000000000000000 &MEIwQjBCMEIwQjBCMEIwQjBCMEIwQjBCMEIwQjBCMEIwQjBCMEIwQjBCMEIwQjBCMEIwQjBCMEIwQjBCMEIwQjBCMEIwQjBCMEI- 00000000000000000000",
		"00000000000000000000 " + strings.Repeat("\U00003042", 37) + " 00000000000000000000", true},

	// ASCII in Base64
	{"&AGE-", "", false},            // "a"
	{"&ACY-", "", false},            // "&"
	{"&AGgAZQBsAGwAbw-", "", false}, // "hello"
	{"&JjoAIQ-", "", false},         // "\u263a!"

	// Bad surrogate
	{"&2AA-", "", false},    // U+D800
	{"&2AD-", "", false},    // U+D800
	{"&3AA-", "", false},    // U+DC00
	{"&2AAAQQ-", "", false}, // U+D800 'A'
	{"&2AD,,w-", "", false}, // U+D800 U+FFFF
	{"&3ADYAA-", "", false}, // U+DC00 U+D800
}


func c16isB64(c byte) bool {
	return c >= 'A' && c <= 'Z' || c >= 'a' && c <= 'z' || c >= '0' && c <= '9' || c == '+' || c == ','
}

// c16wellFormed: printable ASCII only; '&' only as "&-" or opening a non-empty run of
// modified-base64 characters closed by '-'.
func c16wellFormed(e string) bool {
	for i := 0; i < len(e); i++ {
		c := e[i]
		if c < 0x20 || c > 0x7e {
			return false
		}
		if c != '&' {
			continue
		}
		j := i + 1
		for j < len(e) && c16isB64(e[j]) {
			j++
		}
		if j >= len(e) || e[j] != '-' {
			return false
		}
		i = j
	}
	return true
}

// VerifC16RoundTrip: every valid UTF-8 string up to the bound encodes to well-formed
// printable ASCII and decodes back to itself (one-shot x/text String API).
func VerifC16RoundTrip() {
	n := nd.Concretize(nd.Choice(nd.Param("n") + 1))
	s := nd.String(n)
	nd.Assume(utf8.ValidString(s))
	e, err := Encoding.NewEncoder().String(s)
	nd.Reach("encoded")
	nd.Note("in", s)
	nd.Note("enc", e, err == nil)
	nd.Assert(err == nil, "encode-no-error")
	nd.Assert(c16wellFormed(e), "encoded-is-wellformed-printable-ascii")
	d, err2 := Encoding.NewDecoder().String(e)
	nd.Note("dec", d, err2 == nil)
	nd.Assert(err2 == nil, "roundtrip-decodes")
	nd.Assert(d == s, "roundtrip-equal")
}

// c16pump drives Transform the way a streaming caller does, with a source window that
// grows by cs bytes at a time and a destination buffer of ds bytes (doubled only when
// a call makes no progress at all with ErrShortDst).
func c16pump(t transform.Transformer, src []byte, cs, ds int) (out []byte, err error, calls int) {
	t.Reset()
	dst := make([]byte, ds)
	pos := 0
	end := cs
	if end > len(src) {
		end = len(src)
	}
	for calls = 1; calls < 200; calls++ {
		atEOF := end == len(src)
		nDst, nSrc, e := t.Transform(dst, src[pos:end], atEOF)
		out = append(out, dst[:nDst]...)
		pos += nSrc
		switch e {
		case nil:
			if pos != end {
				nd.Fail("transform-nil-error-but-input-left")
			}
			if atEOF {
				return out, nil, calls
			}
			end += cs
		case transform.ErrShortSrc:
			if atEOF {
				nd.Fail("transform-shortsrc-at-eof")
			}
			end += cs
		case transform.ErrShortDst:
			if nDst == 0 && nSrc == 0 {
				dst = make([]byte, len(dst)*2)
			}
		default:
			return out, e, calls
		}
		if end > len(src) {
			end = len(src)
		}
	}
	nd.Fail("transform-no-progress")
	return nil, nil, calls
}

// VerifC16Stream: chunked encoding and decoding give the one-shot result.
func VerifC16Stream() {
	n := 1 + nd.Concretize(nd.Choice(nd.Param("n")))
	s := nd.String(n)
	nd.Assume(utf8.ValidString(s))
	cs := 1 + nd.Concretize(nd.Choice(n))
	ds := 1 + nd.Concretize(nd.Choice(nd.Param("ds")))
	one, err := Encoding.NewEncoder().String(s)
	nd.Assume(err == nil)
	got, err2, _ := c16pump(&encoder{}, []byte(s), cs, ds)
	nd.Reach("streamed")
	nd.Note("in", s, cs, ds)
	nd.Note("out", got, err2 == nil)
	nd.Assert(err2 == nil, "stream-encode-no-error")
	nd.Assert(string(got) == one, "stream-encode-equals-oneshot")
	// decode the encoded form in chunks as well
	cs2 := 1 + nd.Concretize(nd.Choice(len(one)))
	back, err3, _ := c16pump(&decoder{ascii: true}, []byte(one), cs2, ds)
	nd.Assert(err3 == nil, "stream-decode-no-error")
	nd.Assert(string(back) == s, "stream-decode-roundtrip")
}

// ---- decoder strictness -------------------------------------------------------------

// c16b64val: value of a modified-base64 character (caller guarantees c16isB64).
func c16b64val(c byte) uint32 {
	switch {
	case c >= 'A' && c <= 'Z':
		return uint32(c - 'A')
	case c >= 'a' && c <= 'z':
		return uint32(c-'a') + 26
	case c >= '0' && c <= '9':
		return uint32(c-'0') + 52
	case c == '+':
		return 62
	}
	return 63
}

// c16runBad: independent reading of one base64 run (without '&' and '-'): true when the
// UTF-16 payload is listed as malformed: odd byte count, lone / ill-ordered surrogate,
// or a code unit that is printable ASCII.
func c16runBad(run string) bool {
	// bit buffer decoding, 6 bits per character
	var units []uint32
	var acc uint32
	bits := 0
	var bytes []uint32
	for i := 0; i < len(run); i++ {
		acc = acc<<6 | c16b64val(run[i])
		bits += 6
		if bits >= 8 {
			bits -= 8
			bytes = append(bytes, (acc>>uint(bits))&0xff)
		}
	}
	if len(run)%4 == 1 {
		return true // not a base64 length at all
	}
	if len(bytes)%2 == 1 {
		return true // odd UTF-16 half
	}
	for i := 0; i+1 < len(bytes); i += 2 {
		units = append(units, bytes[i]<<8|bytes[i+1])
	}
	for i := 0; i < len(units); i++ {
		u := units[i]
		switch {
		case u >= 0xd800 && u <= 0xdbff:
			if i+1 >= len(units) {
				return true
			}
			lo := units[i+1]
			if lo < 0xdc00 || lo > 0xdfff {
				return true
			}
			i++
		case u >= 0xdc00 && u <= 0xdfff:
			return true
		case u >= 0x20 && u <= 0x7e:
			return true
		}
	}
	return false
}

// c16malformed classifies the input by the listed malformed forms (one-directional
// oracle: each class must be rejected; nothing is said about other inputs).
func c16malformed(b string) string {
	prevRunEnd := -2 // index of the '-' that closed the previous base64 run
	for i := 0; i < len(b); i++ {
		c := b[i]
		if c < 0x20 || c > 0x7e {
			return "non-printable-byte"
		}
		if c != '&' {
			continue
		}
		j := i + 1
		for j < len(b) && b[j] != '-' {
			if b[j] < 0x20 || b[j] > 0x7e {
				return "non-printable-byte"
			}
			j++
		}
		if j >= len(b) {
			return "unterminated-shift"
		}
		run := b[i+1 : j]
		if len(run) > 0 {
			for k := 0; k < len(run); k++ {
				if !c16isB64(run[k]) {
					return "bad-base64-alphabet"
				}
			}
			if prevRunEnd == i-1 {
				return "back-to-back-shifts"
			}
			if c16runBad(run) {
				return "bad-utf16-payload"
			}
			prevRunEnd = j
		}
		i = j
	}
	return ""
}

// VerifC16Decode: arbitrary bytes: no panic, valid UTF-8 out, listed malformed forms rejected.
func VerifC16Decode() {
	n := nd.Concretize(nd.Choice(nd.Param("n") + 1))
	b := nd.String(n)
	out, err := Encoding.NewDecoder().String(b)
	class := c16malformed(b)
	nd.Reach("decoded")
	nd.Note("in", b)
	nd.Note("out", out, err == nil, class)
	if err == nil {
		nd.Reach("accepted")
		nd.Assert(utf8.ValidString(out), "decoder-output-valid-utf8")
	}
	switch class {
	case "non-printable-byte":
		nd.Assert(err != nil, "rejects-non-printable-byte")
	case "unterminated-shift":
		nd.Assert(err != nil, "rejects-unterminated-shift")
	case "bad-base64-alphabet":
		nd.Assert(err != nil, "rejects-bad-base64-alphabet")
	case "back-to-back-shifts":
		nd.Assert(err != nil, "rejects-back-to-back-shifts")
	case "bad-utf16-payload":
		nd.Assert(err != nil, "rejects-bad-utf16-payload")
	}
	if err == nil {
		// what is accepted re-encodes to something that decodes to the same text
		e, err2 := Encoding.NewEncoder().String(out)
		nd.Assert(err2 == nil, "accepted-output-reencodes")
		d, err3 := Encoding.NewDecoder().String(e)
		nd.Assert(err3 == nil && d == out, "accepted-output-roundtrips")
	}
}

// VerifC16DecodeRun: one base64 run of k arbitrary bytes between '&' and '-', with an
// optional arbitrary byte before and after: reaches multi-unit UTF-16 payloads
// (surrogate pairs) that short fully-arbitrary strings cannot.
func VerifC16DecodeRun() {
	k := 1 + nd.Concretize(nd.Choice(nd.Param("k")))
	pre := nd.String(nd.Concretize(nd.Choice(2)))
	post := nd.String(nd.Concretize(nd.Choice(2)))
	b := pre + "&" + nd.String(k) + "-" + post
	out, err := Encoding.NewDecoder().String(b)
	class := c16malformed(b)
	nd.Reach("run-decoded")
	nd.Note("in", b)
	nd.Note("out", out, err == nil, class)
	if err == nil {
		nd.Assert(utf8.ValidString(out), "run-output-valid-utf8")
		if k >= 3 {
			nd.Reach("run-accepted@k>=3")
		}
		e, err2 := Encoding.NewEncoder().String(out)
		nd.Assert(err2 == nil, "run-output-reencodes")
		d, err3 := Encoding.NewDecoder().String(e)
		nd.Assert(err3 == nil && d == out, "run-output-roundtrips")
	}
	if class != "" {
		nd.Assert(err != nil, "run-rejects-"+class)
	}
}

// VerifC16DecodeStream: verdict and output independent of the chunking.
func VerifC16DecodeStream() {
	n := 1 + nd.Concretize(nd.Choice(nd.Param("n")))
	b := nd.String(n)
	cs := 1 + nd.Concretize(nd.Choice(n))
	ds := 1 + nd.Concretize(nd.Choice(nd.Param("ds")))
	one, err := Encoding.NewDecoder().String(b)
	got, err2, _ := c16pump(&decoder{ascii: true}, []byte(b), cs, ds)
	nd.Reach("decode-streamed")
	nd.Note("in", b, cs, ds)
	nd.Note("out", one, err == nil, got, err2 == nil)
	nd.Assert((err == nil) == (err2 == nil), "stream-decode-same-verdict")
	if err == nil && err2 == nil {
		nd.Assert(string(got) == one, "stream-decode-same-output")
		nd.Assert(utf8.Valid(got), "stream-decode-valid-utf8")
	}
}

func VerifC16EncTable() {
	i := nd.Concretize(nd.Choice(len(c16encTable)))
	t := c16encTable[i]
	out, _ := Encoding.NewEncoder().String(t.in)
	nd.Reach("row")
	nd.Note("row", i, out)
	nd.Assert(out == t.out, "enc-table")
	if t.ok {
		nd.Assert(c16wellFormed(out), "enc-table-wellformed")
		d, err := Encoding.NewDecoder().String(out)
		nd.Assert(err == nil && d == t.in, "enc-table-roundtrip")
	}
}

func VerifC16DecTable() {
	i := nd.Concretize(nd.Choice(len(c16decTable)))
	t := c16decTable[i]
	out, err := Encoding.NewDecoder().String(t.in)
	class := c16malformed(t.in)
	nd.Reach("row")
	nd.Note("row", i, out, err == nil, class)
	nd.Assert(out == t.out, "dec-table-output")
	nd.Assert((err == nil) == t.ok, "dec-table-verdict")
	if t.ok {
		nd.Assert(class == "", "dec-table-oracle-accepts-valid")
	}
}
