package imapclient

// C03 — server responses are decoded by the client into the data the backend supplied.
// Injected by overlay into package imapclient (together with the C02 scaffolding).
//
// Full round trip over the real code on both sides: the client command method writes the
// command; a real imapserver connection parses it and calls a backend that answers with
// data built from symbolic scalars through the server's writer API; the server's output
// bytes are fed to the real client reader (readResponse) with the command still pending;
// what Wait/Collect deliver is compared with what the backend supplied.

import (
	"strings"
	"time"
	"unicode/utf8"

	"github.com/emersion/go-imap/v2"
	"github.com/emersion/go-imap/v2/imapserver"
	nd "github.com/emersion/go-imap/v2/internal/zzverif/nd"
)

func init() {
	nd.Register("VerifC03Fetch", VerifC03Fetch)
	nd.Register("VerifC03List", VerifC03List)
	nd.Register("VerifC03Status", VerifC03Status)
	nd.Register("VerifC03Select", VerifC03Select)
	nd.Register("VerifC03Search", VerifC03Search)
	nd.Register("VerifC03UIDs", VerifC03UIDs)
	nd.Register("VerifC03Misc", VerifC03Misc)
}

// c03tail returns the part of the server's output that answers the command under test
// (everything after the greeting and the prologue commands' completions).
func c03tail(out []byte, state, en int) []byte {
	s := string(out)
	last := "\r\n" // end of the greeting line
	i := strings.Index(s, last)
	pos := i + 2
	for _, tag := range []string{"E0 OK", "S0 OK"} {
		if (tag == "E0 OK" && en == 0) || (tag == "S0 OK" && state != 2) {
			continue
		}
		j := strings.Index(s[pos:], tag)
		nd.Assert(j >= 0, "prologue-command-failed")
		j += pos
		e := strings.Index(s[j:], "\r\n")
		pos = j + e + 2
	}
	return out[pos:]
}

// c03feed hands the server's answer to the client reader until everything is consumed.
func c03feed(c *Client, vc *vcConn, data []byte) {
	vc.in = append(vc.in[:0:0], data...)
	vc.pos = 0
	vc.silent = false
	for i := 0; i < 64 && (vc.pos < len(vc.in) || c.br.Buffered() > 0); i++ {
		err := c.readResponse()
		nd.Assert(err == nil, "client-rejects-what-the-server-wrote")
	}
	nd.Assert(vc.pos == len(vc.in) && c.br.Buffered() == 0, "client-did-not-consume-the-whole-answer")
}

func c03utf8(k int) string {
	b := nd.Bytes(k)
	nd.Assume(utf8.Valid(b))
	return string(b)
}

var c03flagPool = []imap.Flag{imap.FlagSeen, imap.FlagDeleted, imap.FlagAnswered, "$Forwarded", "kw", imap.FlagWildcard}

func c03flags(max int, wildcard bool) []imap.Flag {
	n := nd.Choice(max + 1)
	l := []imap.Flag{}
	for i := 0; i < n; i++ {
		p := len(c03flagPool)
		if !wildcard {
			p--
		}
		l = append(l, c03flagPool[nd.Choice(p)])
	}
	return l
}

func c03flagsEq(g, w []imap.Flag) bool {
	if len(g) != len(w) {
		return false
	}
	for i := range w {
		if g[i] != w[i] {
			return false
		}
	}
	return true
}

var c03times = []time.Time{
	time.Date(2024, 1, 5, 10, 11, 12, 0, time.UTC),
	time.Date(2023, 12, 31, 23, 59, 59, 0, time.FixedZone("", -5*3600)),
	time.Date(2000, 2, 29, 0, 0, 0, 0, time.FixedZone("", 3600+1800)),
}

// ---------------------------------------------------------------------------
// FETCH

func c03addrs(k int) []imap.Address {
	switch nd.Choice(3) {
	case 0:
		return nil
	case 1:
		return []imap.Address{{Name: c03utf8(k), Mailbox: "joe", Host: "example.org"}}
	default:
		return []imap.Address{{Mailbox: "a", Host: "b"}, {Name: "N", Mailbox: c02bytesASCII(k), Host: "h"}}
	}
}

// c02bytesASCII: k symbolic printable ASCII bytes (address local parts are not
// free-form strings)
func c02bytesASCII(k int) string {
	b := nd.Bytes(k)
	for i := range b {
		nd.Assume(b[i] >= 0x21)
		nd.Assume(b[i] < 0x7f)
	}
	return string(b)
}

func c03addrsEq(g, w []imap.Address) bool {
	if len(g) != len(w) {
		return false
	}
	for i := range w {
		if g[i].Name != w[i].Name || g[i].Mailbox != w[i].Mailbox || g[i].Host != w[i].Host {
			return false
		}
	}
	return true
}

func c03envelope(k int) *imap.Envelope {
	e := &imap.Envelope{Subject: c03utf8(k), From: c03addrs(k)}
	if nd.Bool() {
		e.Date = c03times[nd.Choice(len(c03times))]
	}
	if nd.Bool() {
		e.To = []imap.Address{{Name: "", Mailbox: "t", Host: "x"}}
		e.MessageID = "id@host"
		e.InReplyTo = []string{"a@b", "c@d"}
	}
	return e
}

func c03envelopeEq(g, w *imap.Envelope, label string) {
	nd.Assert(g != nil, label+"envelope-missing")
	if g == nil {
		return
	}
	if w.Date.IsZero() {
		nd.Assert(g.Date.IsZero(), label+"envelope-date-invented")
	} else {
		nd.Assert(g.Date.Equal(w.Date), label+"envelope-date-differs")
	}
	nd.Assert(g.Subject == w.Subject, label+"envelope-subject-differs")
	nd.Assert(c03addrsEq(g.From, w.From), label+"envelope-from-differs")
	// RFC 3501: absent Sender / Reply-To default to From on the server side
	ws, wr := w.Sender, w.ReplyTo
	if ws == nil {
		ws = w.From
	}
	if wr == nil {
		wr = w.From
	}
	nd.Assert(c03addrsEq(g.Sender, ws), label+"envelope-sender-differs")
	nd.Assert(c03addrsEq(g.ReplyTo, wr), label+"envelope-reply-to-differs")
	nd.Assert(c03addrsEq(g.To, w.To), label+"envelope-to-differs")
	nd.Assert(len(g.Cc) == 0 && len(g.Bcc) == 0, label+"envelope-cc-bcc-invented")
	nd.Assert(g.MessageID == w.MessageID, label+"envelope-message-id-differs")
	nd.Assert(c02strsEq(g.InReplyTo, w.InReplyTo), label+"envelope-in-reply-to-differs")
}

func c03single(k int, extended bool) *imap.BodyStructureSinglePart {
	bs := &imap.BodyStructureSinglePart{Type: "text", Subtype: "plain", Encoding: "7bit", Size: uint32(c02num(2))}
	if nd.Bool() {
		bs.Params = map[string]string{"charset": c03utf8(k)}
	}
	if nd.Bool() {
		bs.ID = c02bytes(k)
		nd.Assume(len(bs.ID) > 0)
		bs.Description = "d"
	}
	bs.Text = &imap.BodyStructureText{NumLines: int64(c02num(2))}
	if extended {
		bs.Extended = &imap.BodyStructureSinglePartExt{}
		if nd.Bool() {
			bs.Extended.Disposition = &imap.BodyStructureDisposition{Value: "attachment", Params: map[string]string{"filename": c03utf8(k)}}
			bs.Extended.Language = []string{"en", "de"}
			bs.Extended.Location = "loc"
		}
	}
	return bs
}

func c03paramsEq(g, w map[string]string) bool {
	if len(g) != len(w) {
		return false
	}
	for k, v := range w {
		gv, ok := g[k]
		if !ok {
			// parameter names are case-insensitive
			for gk, x := range g {
				if strings.EqualFold(gk, k) {
					gv, ok = x, true
				}
			}
		}
		if !ok || gv != v {
			return false
		}
	}
	return true
}

func c03bodyEq(g, w imap.BodyStructure, extended bool, label string) {
	switch w := w.(type) {
	case *imap.BodyStructureSinglePart:
		g, ok := g.(*imap.BodyStructureSinglePart)
		nd.Assert(ok, label+"body-structure-kind-differs")
		if !ok {
			return
		}
		nd.Assert(strings.EqualFold(g.Type, w.Type) && strings.EqualFold(g.Subtype, w.Subtype), label+"body-structure-media-type-differs")
		nd.Assert(c03paramsEq(g.Params, w.Params), label+"body-structure-params-differ")
		nd.Assert(g.ID == w.ID && g.Description == w.Description, label+"body-structure-id-or-description-differs")
		nd.Assert(strings.EqualFold(g.Encoding, w.Encoding), label+"body-structure-encoding-differs")
		nd.Assert(g.Size == w.Size, label+"body-structure-size-differs")
		if w.Text != nil {
			nd.Assert(g.Text != nil && g.Text.NumLines == w.Text.NumLines, label+"body-structure-text-lines-differ")
		}
		if w.MessageRFC822 != nil {
			nd.Assert(g.MessageRFC822 != nil, label+"body-structure-embedded-message-missing")
			if g.MessageRFC822 != nil {
				nd.Assert(g.MessageRFC822.NumLines == w.MessageRFC822.NumLines, label+"body-structure-embedded-lines-differ")
				c03envelopeEq(g.MessageRFC822.Envelope, w.MessageRFC822.Envelope, label+"embedded-")
				c03bodyEq(g.MessageRFC822.BodyStructure, w.MessageRFC822.BodyStructure, extended, label+"embedded-")
			}
		}
		if extended {
			nd.Assert(g.Extended != nil, label+"body-structure-extension-missing")
			if g.Extended != nil {
				wd, gd := w.Extended.Disposition, g.Extended.Disposition
				nd.Assert((gd != nil) == (wd != nil), label+"body-structure-disposition-presence-differs")
				if gd != nil && wd != nil {
					nd.Assert(strings.EqualFold(gd.Value, wd.Value) && c03paramsEq(gd.Params, wd.Params), label+"body-structure-disposition-differs")
				}
				nd.Assert(c02strsEq(g.Extended.Language, w.Extended.Language), label+"body-structure-language-differs")
				nd.Assert(g.Extended.Location == w.Extended.Location, label+"body-structure-location-differs")
			}
		} else {
			nd.Assert(g.Extended == nil, label+"body-structure-extension-invented")
		}
	case *imap.BodyStructureMultiPart:
		g, ok := g.(*imap.BodyStructureMultiPart)
		nd.Assert(ok, label+"body-structure-kind-differs")
		if !ok {
			return
		}
		nd.Assert(strings.EqualFold(g.Subtype, w.Subtype), label+"body-structure-multipart-subtype-differs")
		nd.Assert(len(g.Children) == len(w.Children), label+"body-structure-children-count-differs")
		for i := range w.Children {
			if i < len(g.Children) {
				c03bodyEq(g.Children[i], w.Children[i], extended, label+"child-")
			}
		}
		if extended {
			nd.Assert(g.Extended != nil, label+"body-structure-extension-missing")
			if g.Extended != nil {
				nd.Assert(c03paramsEq(g.Extended.Params, w.Extended.Params), label+"body-structure-multipart-params-differ")
			}
		}
	}
}

// VerifC03Fetch: param item selects the item family: 0 scalars (UID, FLAGS, RFC822.SIZE,
// INTERNALDATE), 1 ENVELOPE, 2 BODY / BODYSTRUCTURE single part, 3 multipart and
// message/rfc822 nesting, 4 BODY[...] sections (literals), 5 BINARY[...] and BINARY.SIZE.
func VerifC03Fetch() {
	scfg, en := c02cfg()
	k, item := nd.Param("k"), nd.Param("item")
	c, vc := c02client(scfg, en)
	o := &imap.FetchOptions{}
	seq := uint32(c02num(0))
	uid := imap.UID(c02num(1))
	var (
		flags    []imap.Flag
		size     int64
		date     time.Time
		env      *imap.Envelope
		bs       imap.BodyStructure
		extended bool
		sections []*imap.FetchItemBodySection
		payloads [][]byte
		bins     []*imap.FetchItemBinarySection
		binData  [][]byte
		binSizes []uint32
	)
	switch item {
	case 0:
		o.UID, o.Flags, o.RFC822Size, o.InternalDate = true, true, true, true
		flags = c03flags(2, false)
		size = int64(c02num(2 + nd.Choice(nd.Param("pw"))))
		date = c03times[nd.Choice(len(c03times))]
	case 1:
		o.Envelope = true
		env = c03envelope(k)
	case 2:
		extended = nd.Bool()
		o.BodyStructure = &imap.FetchItemBodyStructure{Extended: extended}
		bs = c03single(k, extended)
	case 3:
		extended = nd.Bool()
		o.BodyStructure = &imap.FetchItemBodyStructure{Extended: extended}
		// nesting is the subject here: the leaves are fixed apart from one symbolic byte
		inner := &imap.BodyStructureSinglePart{Type: "text", Subtype: "plain", Encoding: "8bit", Size: 5,
			Params: map[string]string{"charset": c03utf8(1)}, Text: &imap.BodyStructureText{NumLines: int64(c02num(2))}}
		second := &imap.BodyStructureSinglePart{Type: "image", Subtype: "png", Encoding: "base64", Size: 99, ID: "<i@d>"}
		if extended {
			inner.Extended = &imap.BodyStructureSinglePartExt{Language: []string{"en"}}
			second.Extended = &imap.BodyStructureSinglePartExt{Disposition: &imap.BodyStructureDisposition{Value: "inline"}}
		}
		if nd.Bool() {
			mp := &imap.BodyStructureMultiPart{Children: []imap.BodyStructure{inner, second}, Subtype: "mixed"}
			if extended {
				mp.Extended = &imap.BodyStructureMultiPartExt{Params: map[string]string{"boundary": "b"}}
			}
			bs = mp
		} else {
			msg := &imap.BodyStructureSinglePart{Type: "message", Subtype: "rfc822", Encoding: "7bit", Size: 9,
				MessageRFC822: &imap.BodyStructureMessageRFC822{Envelope: &imap.Envelope{Subject: "in"}, BodyStructure: inner, NumLines: int64(c02num(2))}}
			if extended {
				msg.Extended = &imap.BodyStructureSinglePartExt{}
			}
			bs = msg
		}
	case 4:
		n := 1 + nd.Choice(2)
		for i := 0; i < n; i++ {
			s := &imap.FetchItemBodySection{}
			if i == 0 {
				s.Peek = nd.Bool()
				s.Part = [][]int{nil, {2, 1}, {1}, {12}}[nd.Choice(nd.Param("np"))]
				s.Specifier = c02specs[nd.Choice(3)]
				if s.Specifier == imap.PartSpecifierHeader && nd.Bool() {
					s.HeaderFields = []string{"Subject", "X-" + c02bytesASCII(1)}
				}
				if nd.Bool() {
					s.Partial = &imap.SectionPartial{Offset: int64(c02num(2 + nd.Choice(2))), Size: 100}
				}
			} else {
				// a second, fixed section: order and pairing of the two literals
				s.Part, s.Specifier = []int{1}, imap.PartSpecifierText
				if nd.Param("np") > 2 {
					s.Part = [][]int{nil, {2, 1}, {1}, {12}}[nd.Choice(4)]
					s.Specifier = c02specs[nd.Choice(3)]
					s.Peek = nd.Bool()
				}
			}
			sections = append(sections, s)
			p := nd.Bytes(k)
			if i == 1 {
				p = append([]byte("second:"), p...)
			}
			payloads = append(payloads, p)
		}
		o.BodySection = sections
	case 6:
		// more data items in one response than the client's hand-off buffer holds
		for i := 0; i < 36; i++ {
			o.BinarySectionSize = append(o.BinarySectionSize, &imap.FetchItemBinarySectionSize{Part: []int{i + 1}})
			binSizes = append(binSizes, uint32(i))
		}
		binSizes[35] = uint32(c02num(1))
	default:
		b := &imap.FetchItemBinarySection{Part: c02parts[nd.Choice(len(c02parts))], Peek: nd.Bool()}
		bins = append(bins, b)
		binData = append(binData, nd.Bytes(k))
		o.BinarySection = bins
		if nd.Bool() {
			o.BinarySectionSize = []*imap.FetchItemBinarySectionSize{{Part: b.Part}}
			binSizes = append(binSizes, uint32(c02num(1+nd.Choice(2))))
		}
	}
	cmd := (*FetchCommand)(nil)
	wire := c02write(c, vc, func() { cmd = c.Fetch(imap.SeqSetNum(seq), o) })
	sess := &c02sess{}
	sess.onFetch = func(w *imapserver.FetchWriter) error {
		m := w.CreateMessage(seq)
		switch item {
		case 0:
			m.WriteUID(uid)
			m.WriteFlags(flags)
			m.WriteRFC822Size(size)
			m.WriteInternalDate(date)
		case 1:
			m.WriteEnvelope(env)
		case 2, 3:
			m.WriteBodyStructure(bs)
		case 4:
			// the backend answers the sections the server parsed, in that order
			call := sess.calls[len(sess.calls)-1]
			for i, s := range call.fopts.BodySection {
				wc := m.WriteBodySection(s, int64(len(payloads[i])))
				wc.Write(payloads[i])
				wc.Close()
			}
		default:
			call := sess.calls[len(sess.calls)-1]
			for i, s := range call.fopts.BinarySection {
				wc := m.WriteBinarySection(s, int64(len(binData[i])))
				wc.Write(binData[i])
				wc.Close()
			}
			for i, s := range call.fopts.BinarySectionSize {
				m.WriteBinarySectionSize(&imap.FetchItemBinarySection{Part: s.Part}, binSizes[i])
			}
		}
		return m.Close()
	}
	_, out := c02serveWith(sess, scfg, en, 2, wire)
	nd.Note("out", out)
	nd.Assert(c02tagged(out) == "OK", "command-not-completed-ok")
	// the consumer drains the streaming command while the reader parses
	var bufs []*FetchMessageBuffer
	var cerr error
	done := make(chan struct{})
	go func() {
		defer nd.Recover()
		defer close(done)
		bufs, cerr = cmd.Collect()
	}()
	c03feed(c, vc, c03tail(out, 2, en))
	for i := 0; i < 400 && !c02isDone(done); i++ {
		time.Sleep(time.Millisecond)
	}
	nd.Assert(c02isDone(done), "fetch-collect-did-not-return")
	nd.Assert(cerr == nil, "fetch-reports-error")
	nd.Assert(len(bufs) == 1, "fetch-did-not-deliver-exactly-the-message")
	if len(bufs) != 1 {
		return
	}
	g := bufs[0]
	nd.Assert(g.SeqNum == seq, "fetch-sequence-number-differs")
	switch item {
	case 0:
		nd.Assert(g.UID == uid, "fetch-uid-differs")
		nd.Assert(c02flagsEq(g.Flags, flags) && len(g.Flags) == len(flags), "fetch-flags-differ")
		nd.Assert(g.RFC822Size == size, "fetch-size-differs")
		nd.Assert(g.InternalDate.Equal(date), "fetch-internal-date-differs")
	case 1:
		c03envelopeEq(g.Envelope, env, "")
	case 2, 3:
		nd.Assert(g.BodyStructure != nil, "fetch-body-structure-missing")
		if g.BodyStructure != nil {
			c03bodyEq(g.BodyStructure, bs, extended, "")
		}
	case 4:
		nd.Assert(len(g.BodySection) == len(sections), "fetch-body-sections-count-differs")
		for i, s := range sections {
			// delivered under a section equal to the one the caller asked for
			var b []byte
			found := 0
			for gs, data := range g.BodySection {
				if gs.Specifier == s.Specifier && c02partEq(gs.Part, s.Part) && c02strsEq(gs.HeaderFields, s.HeaderFields) && c02strsEq(gs.HeaderFieldsNot, s.HeaderFieldsNot) &&
					(gs.Partial != nil) == (s.Partial != nil) && (s.Partial == nil || gs.Partial.Offset == s.Partial.Offset) && string(data) == string(payloads[i]) {
					b = data
					found++
				}
			}
			_ = b
			nd.Assert(found >= 1, "fetch-body-section-not-delivered-under-the-requested-section-with-its-bytes")
		}
	default:
		nd.Assert(len(g.BinarySection) == len(bins), "fetch-binary-sections-count-differs")
		for i, s := range bins {
			found := 0
			for gs, data := range g.BinarySection {
				if c02partEq(gs.Part, s.Part) && string(data) == string(binData[i]) {
					found++
				}
			}
			nd.Assert(found >= 1, "fetch-binary-section-not-delivered-with-its-bytes")
		}
		nd.Assert(len(g.BinarySectionSize) == len(binSizes), "fetch-binary-size-count-differs")
		for i := range binSizes {
			if i < len(g.BinarySectionSize) {
				want := []int{i + 1}
				if item != 6 {
					want = bins[0].Part
				}
				nd.Assert(g.BinarySectionSize[i].Size == binSizes[i] && c02partEq(g.BinarySectionSize[i].Part, want), "fetch-binary-size-differs")
			}
		}
	}
	nd.Reach("decoded")
}

// ---------------------------------------------------------------------------
// LIST (+ STATUS)

var c03attrs = []imap.MailboxAttr{imap.MailboxAttrNoSelect, imap.MailboxAttrHasChildren, imap.MailboxAttrSubscribed, imap.MailboxAttrNoInferiors, "\\X-custom"}

func VerifC03List() {
	scfg, en := c02cfg()
	k := nd.Param("k")
	// status: 0 = names (mailbox, OLDNAME) symbolic; 1 = RETURN (STATUS ...) pairing;
	// 2 = attributes, delimiter, CHILDINFO symbolic
	mode := nd.Param("status")
	withStatus := mode == 1
	c, vc := c02client(scfg, en)
	n := 1 + nd.Choice(2)
	var want []imap.ListData
	for i := 0; i < n; i++ {
		var d imap.ListData
		if i == 0 {
			// the first entry is the symbolic one
			d.Mailbox = "first"
			if mode != 2 {
				d.Mailbox = c03utf8(k)
				nd.Assume(len(d.Mailbox) > 0)
			}
			if a := nd.Choice(len(c03attrs) + 1); mode == 2 && a < len(c03attrs) {
				d.Attrs = append(d.Attrs, c03attrs[a])
				if nd.Bool() {
					d.Attrs = append(d.Attrs, imap.MailboxAttrHasNoChildren)
				}
			}
			d.Delim = '/'
			if mode == 2 {
				switch nd.Choice(3) {
				case 1:
					d.Delim = rune(nd.Byte())
					nd.Assume(d.Delim >= 0x20 && d.Delim < 0x7f)
				case 2:
					d.Delim = 0
				}
				if nd.Bool() {
					d.ChildInfo = &imap.ListDataChildInfo{Subscribed: true}
				}
			}
			if mode == 0 && nd.Bool() {
				d.OldName = c03utf8(k)
				nd.Assume(len(d.OldName) > 0)
			}
			if withStatus && nd.Bool() {
				num := uint32(c02num(1 + nd.Choice(2)))
				d.Status = &imap.StatusData{Mailbox: d.Mailbox, NumMessages: &num, UIDNext: imap.UID(c02num(0))}
			}
		} else {
			// a second, fixed entry: order and LIST-STATUS pairing
			d = imap.ListData{Mailbox: "second/box", Delim: '/', Attrs: []imap.MailboxAttr{imap.MailboxAttrNoInferiors}}
			if withStatus {
				num := uint32(7)
				d.Status = &imap.StatusData{Mailbox: d.Mailbox, NumMessages: &num, UIDNext: 9}
			}
		}
		want = append(want, d)
	}
	var opts *imap.ListOptions
	if withStatus {
		opts = &imap.ListOptions{ReturnStatus: &imap.StatusOptions{NumMessages: true, UIDNext: true}}
	}
	cmd := (*ListCommand)(nil)
	wire := c02write(c, vc, func() { cmd = c.List("", "*", opts) })
	sess := &c02sess{}
	sess.onList = func(w *imapserver.ListWriter) error {
		for i := range want {
			if err := w.WriteList(&want[i]); err != nil {
				return err
			}
		}
		return nil
	}
	_, out := c02serveWith(sess, scfg, en, 1, wire)
	nd.Note("out", out)
	nd.Assert(c02tagged(out) == "OK", "command-not-completed-ok")
	c03feed(c, vc, c03tail(out, 1, en))
	got, err := cmd.Collect()
	nd.Assert(err == nil, "list-reports-error")
	nd.Assert(len(got) == len(want), "list-entries-dropped-or-duplicated")
	for i := range want {
		if i >= len(got) {
			break
		}
		g, w := got[i], &want[i]
		nd.Assert(c02mboxEq(g.Mailbox, w.Mailbox), "list-mailbox-name-differs")
		nd.Assert(g.Delim == w.Delim, "list-delimiter-differs")
		nd.Assert(len(g.Attrs) == len(w.Attrs), "list-attributes-count-differs")
		for j := range w.Attrs {
			if j < len(g.Attrs) {
				nd.Assert(strings.EqualFold(string(g.Attrs[j]), string(w.Attrs[j])), "list-attribute-differs")
			}
		}
		nd.Assert((g.ChildInfo != nil) == (w.ChildInfo != nil), "list-childinfo-presence-differs")
		nd.Assert(c02mboxEq(g.OldName, w.OldName) || (w.OldName == "" && g.OldName == ""), "list-oldname-differs")
		nd.Assert((g.Status != nil) == (w.Status != nil), "list-status-pairing-differs")
		if g.Status != nil && w.Status != nil {
			nd.Assert(c02mboxEq(g.Status.Mailbox, w.Mailbox), "list-status-paired-with-wrong-mailbox")
			nd.Assert(g.Status.NumMessages != nil && *g.Status.NumMessages == *w.Status.NumMessages, "list-status-messages-differ")
			nd.Assert(g.Status.UIDNext == w.Status.UIDNext, "list-status-uidnext-differs")
		}
	}
	nd.Reach("decoded")
}

// ---------------------------------------------------------------------------
// STATUS

func c03u32p(w int) *uint32 {
	if !nd.Bool() {
		return nil
	}
	v := uint32(c02num(w))
	return &v
}

func c03u32pEq(g, w *uint32) bool {
	if g == nil || w == nil {
		return g == nil && w == nil
	}
	return *g == *w
}

func VerifC03Status() {
	scfg, en := c02cfg()
	k := nd.Param("k")
	c, vc := c02client(scfg, en)
	mb := c03utf8(k)
	nd.Assume(len(mb) > 0)
	want := &imap.StatusData{Mailbox: mb, NumMessages: c03u32p(1)}
	if nd.Bool() {
		u := uint32(4)
		want.NumUnseen = &u
	}
	if nd.Bool() {
		d := uint32(0)
		want.NumDeleted = &d
	}
	if nd.Bool() {
		want.UIDNext = 4294967295
		want.UIDValidity = uint32(c02num(0))
	}
	if nd.Bool() {
		sz := int64(c02num(2 + nd.Choice(nd.Param("pw"))))
		want.Size = &sz
	}
	o := &imap.StatusOptions{NumMessages: want.NumMessages != nil, NumUnseen: want.NumUnseen != nil, NumDeleted: want.NumDeleted != nil, UIDNext: want.UIDNext != 0, UIDValidity: want.UIDValidity != 0, Size: want.Size != nil}
	nd.Assume(o.NumMessages || o.NumUnseen || o.NumDeleted || o.UIDNext || o.Size)
	cmd := (*StatusCommand)(nil)
	wire := c02write(c, vc, func() { cmd = c.Status(mb, o) })
	sess := &c02sess{statusData: want}
	_, out := c02serveWith(sess, scfg, en, 1, wire)
	nd.Note("out", out)
	nd.Assert(c02tagged(out) == "OK", "command-not-completed-ok")
	c03feed(c, vc, c03tail(out, 1, en))
	g, err := cmd.Wait()
	nd.Assert(err == nil && g != nil, "status-reports-error")
	nd.Assert(c02mboxEq(g.Mailbox, mb), "status-mailbox-differs")
	nd.Assert(c03u32pEq(g.NumMessages, want.NumMessages), "status-messages-differ")
	nd.Assert(c03u32pEq(g.NumUnseen, want.NumUnseen), "status-unseen-differ")
	nd.Assert(c03u32pEq(g.NumDeleted, want.NumDeleted), "status-deleted-differ")
	nd.Assert(g.UIDNext == want.UIDNext && g.UIDValidity == want.UIDValidity, "status-uid-items-differ")
	if want.Size == nil {
		nd.Assert(g.Size == nil, "status-size-invented")
	} else {
		nd.Assert(g.Size != nil && *g.Size == *want.Size, "status-size-differs")
	}
	nd.Reach("decoded")
}

// ---------------------------------------------------------------------------
// SELECT

func VerifC03Select() {
	scfg, en := c02cfg()
	c, vc := c02client(scfg, en)
	c.state, c.mailbox = imap.ConnStateAuthenticated, nil
	want := &imap.SelectData{Flags: c03flags(1, false), PermanentFlags: c03flags(1, true), NumMessages: uint32(c02num(nd.Choice(2))), UIDNext: 4294967295, UIDValidity: uint32(c02num(0))}
	cmd := (*SelectCommand)(nil)
	wire := c02write(c, vc, func() { cmd = c.Select("box", &imap.SelectOptions{ReadOnly: nd.Bool()}) })
	sess := &c02sess{selData: want}
	_, out := c02serveWith(sess, scfg, en, 1, wire)
	nd.Note("out", out)
	nd.Assert(c02tagged(out) == "OK", "command-not-completed-ok")
	c03feed(c, vc, c03tail(out, 1, en))
	g, err := cmd.Wait()
	nd.Assert(err == nil && g != nil, "select-reports-error")
	nd.Assert(c03flagsEq(g.Flags, want.Flags), "select-flags-differ")
	nd.Assert(c03flagsEq(g.PermanentFlags, want.PermanentFlags), "select-permanent-flags-differ")
	nd.Assert(g.NumMessages == want.NumMessages, "select-message-count-differs")
	nd.Assert(g.UIDNext == want.UIDNext && g.UIDValidity == want.UIDValidity, "select-uid-items-differ")
	mb := c.Mailbox()
	nd.Assert(mb != nil && mb.Name == "box" && mb.NumMessages == want.NumMessages, "selected-mailbox-summary-differs")
	nd.Reach("decoded")
}

// ---------------------------------------------------------------------------
// SEARCH / ESEARCH

func VerifC03Search() {
	scfg, en := c02cfg()
	c, vc := c02client(scfg, en)
	uid := nd.Bool()
	ret := nd.Param("ret") // 0: plain SEARCH, 1: RETURN options (ESEARCH)
	var set imap.NumSet
	if ret == 0 {
		set = c02set(uid, 0)
	} else if uid {
		set = imap.UIDSetNum(3, 4, 9)
	} else {
		set = imap.SeqSetNum(3, 4, 9)
	}
	// search results are static sets
	switch s := set.(type) {
	case imap.SeqSet:
		nd.Assume(!s.Dynamic())
	case imap.UIDSet:
		nd.Assume(!s.Dynamic())
	}
	want := &imap.SearchData{All: set, UID: uid}
	var so *imap.SearchOptions
	if ret == 1 {
		so = &imap.SearchOptions{ReturnMin: nd.Bool(), ReturnMax: nd.Bool(), ReturnAll: nd.Bool(), ReturnCount: nd.Bool()}
		want.Min, want.Max, want.Count = uint32(c02num(0)), uint32(c02num(1)), uint32(c02num(2))
	}
	cmd := (*SearchCommand)(nil)
	wire := c02write(c, vc, func() {
		if uid {
			cmd = c.UIDSearch(&imap.SearchCriteria{}, so)
		} else {
			cmd = c.Search(&imap.SearchCriteria{}, so)
		}
	})
	sess := &c02sess{searchData: want}
	_, out := c02serveWith(sess, scfg, en, 2, wire)
	nd.Note("out", out)
	nd.Assert(c02tagged(out) == "OK", "command-not-completed-ok")
	c03feed(c, vc, c03tail(out, 2, en))
	g, err := cmd.Wait()
	nd.Assert(err == nil && g != nil, "search-reports-error")
	// extended result form only if a result option was actually requested (or IMAP4rev2)
	esearch := en == 2 || (so != nil && (so.ReturnMin || so.ReturnMax || so.ReturnAll || so.ReturnCount))
	all := so == nil || so.ReturnAll || (!so.ReturnMin && !so.ReturnMax && !so.ReturnCount)
	if all {
		nd.Assert(c02setEq(g.All, set), "search-result-set-differs")
	}
	if esearch {
		nd.Assert(g.UID == uid, "search-uid-indicator-differs")
	}
	if so != nil {
		if so.ReturnMin {
			nd.Assert(g.Min == want.Min, "search-min-differs")
		}
		if so.ReturnMax {
			nd.Assert(g.Max == want.Max, "search-max-differs")
		}
		if so.ReturnCount {
			nd.Assert(g.Count == want.Count, "search-count-differs")
		}
	}
	nd.Reach("decoded")
}

// ---------------------------------------------------------------------------
// APPENDUID / COPYUID (COPY, MOVE)

func VerifC03UIDs() {
	scfg, en := c02cfg()
	c, vc := c02client(scfg, en)
	switch nd.Choice(3) {
	case 0:
		want := &imap.AppendData{UID: imap.UID(c02num(1)), UIDValidity: uint32(c02num(0))}
		cmd := (*AppendCommand)(nil)
		wire := c02write(c, vc, func() {
			cmd = c.Append("m", 2, nil)
			cmd.Write([]byte("hi"))
			cmd.Close()
		})
		_, out := c02serveWith(&c02sess{appendData: want}, scfg, en, 1, wire)
		nd.Assert(c02tagged(out) == "OK", "command-not-completed-ok")
		c03feed(c, vc, c03tail(out, 1, en))
		g, err := cmd.Wait()
		nd.Assert(err == nil && g != nil, "append-reports-error")
		nd.Assert(g.UID == want.UID && g.UIDValidity == want.UIDValidity, "appenduid-differs")
	case 1:
		src := c02set(true, 0).(imap.UIDSet)
		dst := imap.UIDSetNum(4294967294, 4294967295)
		nd.Assume(!src.Dynamic())
		want := &imap.CopyData{UIDValidity: uint32(c02num(1)), SourceUIDs: src, DestUIDs: dst}
		cmd := (*CopyCommand)(nil)
		wire := c02write(c, vc, func() { cmd = c.Copy(imap.SeqSetNum(1), "d") })
		_, out := c02serveWith(&c02sess{copyData: want}, scfg, en, 2, wire)
		nd.Assert(c02tagged(out) == "OK", "command-not-completed-ok")
		c03feed(c, vc, c03tail(out, 2, en))
		g, err := cmd.Wait()
		nd.Assert(err == nil && g != nil, "copy-reports-error")
		nd.Assert(g.UIDValidity == want.UIDValidity, "copyuid-validity-differs")
		nd.Assert(c02setEq(g.SourceUIDs, src) && c02setEq(g.DestUIDs, dst), "copyuid-sets-differ")
	default:
		src := imap.UIDSetNum(5, 6)
		dst := c02set(true, 1).(imap.UIDSet)
		nd.Assume(!dst.Dynamic())
		want := &imap.CopyData{UIDValidity: 77, SourceUIDs: src, DestUIDs: dst}
		exp := []uint32{uint32(c02num(0)), 1}
		cmd := (*MoveCommand)(nil)
		wire := c02write(c, vc, func() { cmd = c.Move(imap.SeqSetNum(1, 2), "d") })
		sess := &c02sess{}
		sess.onMove = func(w *imapserver.MoveWriter) error {
			if err := w.WriteCopyData(want); err != nil {
				return err
			}
			for _, n := range exp {
				if err := w.WriteExpunge(n); err != nil {
					return err
				}
			}
			return nil
		}
		var seen []uint32
		c.options.UnilateralDataHandler = &UnilateralDataHandler{Expunge: func(n uint32) { seen = append(seen, n) }}
		_, out := c02serveWith(sess, scfg, en, 2, wire)
		nd.Assert(c02tagged(out) == "OK", "command-not-completed-ok")
		c03feed(c, vc, c03tail(out, 2, en))
		g, err := cmd.Wait()
		nd.Assert(err == nil && g != nil, "move-reports-error")
		nd.Assert(g.UIDValidity == want.UIDValidity, "move-copyuid-validity-differs")
		nd.Assert(c02setEq(g.SourceUIDs, src) && c02setEq(g.DestUIDs, dst), "move-copyuid-sets-differ")
		nd.Assert(len(seen) == 2 && seen[0] == exp[0] && seen[1] == exp[1], "move-expunge-notifications-differ")
	}
	nd.Reach("decoded")
}

// ---------------------------------------------------------------------------
// NAMESPACE, EXPUNGE, CAPABILITY

func VerifC03Misc() {
	scfg, en := c02cfg()
	k := nd.Param("k")
	c, vc := c02client(scfg, en)
	switch nd.Choice(3) {
	case 0:
		want := &imap.NamespaceData{Personal: []imap.NamespaceDescriptor{{Prefix: c03utf8(k), Delim: '/'}}}
		if nd.Bool() {
			want.Shared = []imap.NamespaceDescriptor{{Prefix: "#s.", Delim: '.'}, {Prefix: c03utf8(k), Delim: 0}}
		}
		cmd := (*NamespaceCommand)(nil)
		wire := c02write(c, vc, func() { cmd = c.Namespace() })
		_, out := c02serveWith(&c02sess{nsData: want}, scfg, en, 1, wire)
		nd.Note("out", out)
		nd.Assert(c02tagged(out) == "OK", "command-not-completed-ok")
		c03feed(c, vc, c03tail(out, 1, en))
		g, err := cmd.Wait()
		nd.Assert(err == nil && g != nil, "namespace-reports-error")
		eq := func(g, w []imap.NamespaceDescriptor) bool {
			if len(g) != len(w) {
				return false
			}
			for i := range w {
				if g[i].Prefix != w[i].Prefix || g[i].Delim != w[i].Delim {
					return false
				}
			}
			return true
		}
		nd.Assert(eq(g.Personal, want.Personal), "namespace-personal-differs")
		nd.Assert(eq(g.Other, want.Other), "namespace-other-differs")
		nd.Assert(eq(g.Shared, want.Shared), "namespace-shared-differs")
	case 1:
		exp := []uint32{uint32(c02num(0)), uint32(c02num(0)), uint32(c02num(1))}
		cmd := (*ExpungeCommand)(nil)
		wire := c02write(c, vc, func() { cmd = c.Expunge() })
		sess := &c02sess{}
		sess.onExpunge = func(w *imapserver.ExpungeWriter) error {
			for _, n := range exp {
				if err := w.WriteExpunge(n); err != nil {
					return err
				}
			}
			return nil
		}
		_, out := c02serveWith(sess, scfg, en, 2, wire)
		nd.Assert(c02tagged(out) == "OK", "command-not-completed-ok")
		c03feed(c, vc, c03tail(out, 2, en))
		g, err := cmd.Collect()
		nd.Assert(err == nil, "expunge-reports-error")
		nd.Assert(len(g) == 3 && g[0] == exp[0] && g[1] == exp[1] && g[2] == exp[2], "expunge-notifications-differ")
	default:
		cmd := (*CapabilityCommand)(nil)
		wire := c02write(c, vc, func() { cmd = c.Capability() })
		_, out := c02serveWith(&c02sess{}, scfg, en, 1, wire)
		nd.Assert(c02tagged(out) == "OK", "command-not-completed-ok")
		c03feed(c, vc, c03tail(out, 1, en))
		g, err := cmd.Wait()
		nd.Assert(err == nil, "capability-reports-error")
		for cap := range c02caps(scfg, en) {
			nd.Assert(g.Has(cap), "advertised-capability-not-delivered")
		}
		nd.Assert(!g.Has(imap.CapStartTLS) && !g.Has(imap.CapCondStore), "capability-invented")
	}
	nd.Reach("decoded")
}
