package imapclient

// Harness for C11 (client never panics or blows up on arbitrary server bytes).
// A Client is built directly with one pending command of every kind; the harness calls
// readResponse itself (so a panic is seen, not recovered) and then every accessor.

import (
	"github.com/emersion/go-imap/v2"
	nd "github.com/emersion/go-imap/v2/internal/zzverif/nd"
)

func init() {
	nd.Register("VerifC11Bytes", VerifC11Bytes)
	nd.Register("VerifC11Nesting", VerifC11Nesting)
	nd.Register("VerifC11Fields", VerifC11Fields)
	nd.Register("VerifC11Table", VerifC11Table)
}

var c11ctx = []string{
	"", "* ", "* OK [", "* OK [PERMANENTFLAGS (", "* OK [UIDNEXT ", "* OK [UIDVALIDITY ", "* OK [COPYUID ", "* OK [COPYUID 1 ", "* OK [COPYUID 1 2 ",
	"* CAPABILITY ", "* ENABLED ", "* NAMESPACE ", "* NAMESPACE ((\"\" \"/\"", "* NAMESPACE NIL NIL ", "* FLAGS (", "* 1 ", "* 4294967295 ", "* 0 ",
	"* LIST (", "* LIST () ", "* LIST () \"/\" ", "* LIST () \"/\" x (", "* LIST () NIL x (\"CHILDINFO\" (", "* STATUS x (", "* STATUS x (MESSAGES ",
	"* 1 FETCH (", "* 1 FETCH (FLAGS (", "* 1 FETCH (UID ", "* 1 FETCH (ENVELOPE (", "* 1 FETCH (ENVELOPE (NIL NIL ((", "* 1 FETCH (ENVELOPE (NIL NIL NIL NIL NIL NIL NIL NIL NIL ",
	"* 1 FETCH (BODYSTRUCTURE (", "* 1 FETCH (BODYSTRUCTURE (\"text\" \"plain\" (", "* 1 FETCH (BODYSTRUCTURE (\"text\" \"plain\" NIL NIL NIL \"7bit\" ",
	"* 1 FETCH (BODY[", "* 1 FETCH (BODY[]<", "* 1 FETCH (BODY[] ", "* 1 FETCH (BODY[] {", "* 1 FETCH (BODY[] {3}\r\nabc", "* 1 FETCH (BINARY[", "* 1 FETCH (BINARY.SIZE[",
	"* 1 FETCH (INTERNALDATE \"", "* 1 FETCH (RFC822.SIZE ", "* 1 FETCH (MODSEQ (", "* 1 FETCH (UID 5 BODY[] ",
	"* SEARCH", "* SEARCH ", "* ESEARCH", "* ESEARCH ", "* ESEARCH (TAG \"T3\")", "* ESEARCH (TAG \"T3\") ", "* ESEARCH (TAG \"T3\") ALL ", "* ESEARCH (TAG \"T3\") UID ALL ",
	"* ESEARCH (TAG \"T3\") MIN ", "* ESEARCH (TAG \"T3\") COUNT ", "* SORT", "* SORT ", "* THREAD", "* THREAD ", "* THREAD (", "* THREAD (1 (",
	"* QUOTA x (", "* QUOTA x (STORAGE ", "* QUOTAROOT ", "* METADATA x (", "* METADATA x (/a ",
	"T1 ", "T1 OK [", "T1 OK [APPENDUID ", "T1 OK [COPYUID 1 ", "T1 OK [CAPABILITY ", "T9 OK x", "+ ", "+",
}

type c11cmds struct {
	fetch    *FetchCommand
	uidFetch *FetchCommand
	expunge  *ExpungeCommand
	search   *SearchCommand
	list     *ListCommand
	status   *StatusCommand
	copy     *CopyCommand
	move     *MoveCommand
	append_  *AppendCommand
	sort     *SortCommand
	thread   *ThreadCommand
	quota    *GetQuotaCommand
	qroot    *GetQuotaRootCommand
	meta     *GetMetadataCommand
	ns       *NamespaceCommand
	caps     *CapabilityCommand
	enable   *EnableCommand
	sel      *SelectCommand
}

func c11pend(c *Client) *c11cmds {
	p := &c11cmds{}
	var all imap.SeqSet
	all.AddRange(1, 0)
	var allUID imap.UIDSet
	allUID.AddRange(1, 0)
	p.fetch = &FetchCommand{numSet: all, msgs: make(chan *FetchMessageData, 128)}
	vcPend(c, p.fetch) // T1
	p.uidFetch = &FetchCommand{numSet: allUID, msgs: make(chan *FetchMessageData, 128)}
	vcPend(c, p.uidFetch) // T2
	p.search = &SearchCommand{}
	p.search.data.All = imap.SeqSet(nil)
	vcPend(c, p.search) // T3
	p.expunge = &ExpungeCommand{seqNums: make(chan uint32, 128)}
	vcPend(c, p.expunge)
	p.list = &ListCommand{mailboxes: make(chan *imap.ListData, 64), returnStatus: true}
	vcPend(c, p.list)
	p.status = &StatusCommand{mailbox: "x"}
	vcPend(c, p.status)
	p.copy = &CopyCommand{}
	vcPend(c, p.copy)
	p.move = &MoveCommand{}
	vcPend(c, p.move)
	p.append_ = &AppendCommand{}
	vcPend(c, p.append_)
	p.sort = &SortCommand{}
	vcPend(c, p.sort)
	p.thread = &ThreadCommand{}
	vcPend(c, p.thread)
	p.quota = &GetQuotaCommand{root: "x"}
	vcPend(c, p.quota)
	p.qroot = &GetQuotaRootCommand{mailbox: "x"}
	vcPend(c, p.qroot)
	p.meta = &GetMetadataCommand{mailbox: "x"}
	vcPend(c, p.meta)
	p.ns = &NamespaceCommand{}
	vcPend(c, p.ns)
	p.caps = &CapabilityCommand{}
	vcPend(c, p.caps)
	p.enable = &EnableCommand{}
	vcPend(c, p.enable)
	return p
}

// c11count: how many numbers a static set enumerates (saturating), and whether it is static.
func c11countSeq(s imap.SeqSet) (uint64, bool) {
	var n uint64
	for _, r := range s {
		if r.Start == 0 || r.Stop == 0 {
			return 0, false
		}
		n += uint64(r.Stop-r.Start) + 1
	}
	return n, true
}

func c11checkSeqSet(s imap.SeqSet, inputLen int, label string) {
	n, static := c11countSeq(s)
	nd.Assert(static, label+"-open-ended-or-zero-delivered")
	if !static {
		return
	}
	// enumeration must stay linear in the size of the input (a 30-byte reply must not
	// expand into billions of numbers)
	nd.Assert(n <= uint64(16*inputLen), label+"-enumeration-superlinear-in-input")
	if n <= 64 {
		nums, ok := s.Nums()
		nd.Assert(ok && uint64(len(nums)) == n, label+"-enumeration")
		for _, x := range nums {
			nd.Assert(x != 0, label+"-zero-delivered")
		}
	}
}

func c11uidToSeq(u imap.UIDSet) imap.SeqSet {
	s := make(imap.SeqSet, len(u))
	for i, r := range u {
		s[i] = imap.SeqRange{Start: uint32(r.Start), Stop: uint32(r.Stop)}
	}
	return s
}

func c11walkThread(t []ThreadData, depth int) int {
	max := depth
	for i := range t {
		for _, n := range t[i].Chain {
			nd.Assert(n != 0, "thread-zero-delivered")
		}
		if d := c11walkThread(t[i].SubThreads, depth+1); d > max {
			max = d
		}
	}
	return max
}

func c11bodyDepth(bs imap.BodyStructure) int {
	switch b := bs.(type) {
	case *imap.BodyStructureMultiPart:
		d := 0
		for _, ch := range b.Children {
			if x := c11bodyDepth(ch); x > d {
				d = x
			}
		}
		return d + 1
	case *imap.BodyStructureSinglePart:
		if b.MessageRFC822 != nil && b.MessageRFC822.BodyStructure != nil {
			return 1 + c11bodyDepth(b.MessageRFC822.BodyStructure)
		}
	}
	return 1
}

// c11run feeds the input to a fresh client and invokes every accessor on what comes out.
var unilateralFetch bool

func c11run(in []byte) (maxBodyDepth, maxThreadDepth int) {
	vc := &vcConn{in: in}
	handled := 0
	opts := &Options{UnilateralDataHandler: &UnilateralDataHandler{
		Expunge: func(n uint32) {
			handled++
			nd.Assert(n != 0, "unilateral-expunge-zero-delivered")
		},
		Mailbox: func(d *UnilateralDataMailbox) { handled++ },
	}}
	if unilateralFetch {
		// no FETCH command pending: FETCH data goes to the unilateral handler
		opts.UnilateralDataHandler.Fetch = func(msg *FetchMessageData) {
			defer nd.Recover()
			nd.Assert(msg.SeqNum != 0, "unilateral-fetch-seqnum-zero-delivered")
			msg.Collect()
		}
	}
	c := vcDirect(vc, imap.ConnStateSelected, opts)
	c.mailbox = &SelectedMailbox{Name: "x", NumMessages: 10}
	p := c11pend(c)
	if unilateralFetch {
		c.pendingCmds = c.pendingCmds[2:] // drop the two FETCH commands
	}
	// consumers for the streaming commands (they run when the reader blocks)
	fetched := make(chan int, 2)
	consume := func(cmd *FetchCommand) {
		defer nd.Recover()
		n := 0
		defer func() { fetched <- n }()
		for {
			msg := cmd.Next()
			if msg == nil {
				break
			}
			n++
			nd.Assert(msg.SeqNum != 0, "fetch-seqnum-zero-delivered")
			buf, err := msg.Collect()
			if err == nil && buf != nil {
				if cmd == p.uidFetch {
					nd.Assert(buf.UID != 0, "fetch-uid-zero-delivered")
				}
				if buf.BodyStructure != nil {
					if d := c11bodyDepth(buf.BodyStructure); d > maxBodyDepth {
						maxBodyDepth = d
					}
					buf.BodyStructure.MediaType()
					buf.BodyStructure.Disposition()
					buf.BodyStructure.Walk(func(path []int, part imap.BodyStructure) bool { return true })
				}
				for _, s := range buf.BodySection {
					_ = len(s)
				}
				if buf.Envelope != nil {
					for _, a := range buf.Envelope.From {
						a.Addr()
						a.IsGroupStart()
						a.IsGroupEnd()
					}
				}
			}
		}
	}
	go consume(p.fetch)
	go consume(p.uidFetch)

	var err error
	for i := 0; i < 3; i++ {
		if c.dec.EOF() {
			break
		}
		if err = c.readResponse(); err != nil {
			break
		}
	}
	nd.Note("err", err == nil)
	// release the streaming commands and wait for the consumers
	c.closeWithError(nil)
	if unilateralFetch {
		close(p.fetch.msgs)
		close(p.uidFetch.msgs)
	}
	<-fetched
	<-fetched

	for {
		n, ok := <-p.expunge.seqNums
		if !ok {
			break
		}
		nd.Assert(n != 0, "expunge-seqnum-zero-delivered")
	}
	for {
		l, ok := <-p.list.mailboxes
		if !ok {
			break
		}
		_ = l.Mailbox
		if l.Status != nil {
			_ = l.Status.Mailbox
		}
	}
	inLen := len(in)
	if p.search.data.All != nil {
		switch s := p.search.data.All.(type) {
		case imap.SeqSet:
			c11checkSeqSet(s, inLen, "search-result")
		case imap.UIDSet:
			c11checkSeqSet(c11uidToSeq(s), inLen, "search-result")
		}
	}
	for _, n := range p.sort.nums {
		nd.Assert(n != 0, "sort-zero-delivered")
	}
	maxThreadDepth = c11walkThread(p.thread.data, 0)
	for _, d := range []*imap.CopyData{&p.copy.data} {
		c11checkSeqSet(c11uidToSeq(d.SourceUIDs), inLen, "copyuid-source")
		c11checkSeqSet(c11uidToSeq(d.DestUIDs), inLen, "copyuid-dest")
	}
	if u, ok := p.move.data.SourceUIDs.(imap.UIDSet); ok {
		c11checkSeqSet(c11uidToSeq(u), inLen, "move-copyuid-source")
	}
	if u, ok := p.move.data.DestUIDs.(imap.UIDSet); ok {
		c11checkSeqSet(c11uidToSeq(u), inLen, "move-copyuid-dest")
	}
	_ = p.status.data.Mailbox
	if p.quota.data != nil {
		_ = p.quota.data.Root
	}
	_ = p.ns.data.Personal
	return
}

// VerifC11Bytes: every parser context followed by a window of arbitrary bytes.
func VerifC11Bytes() {
	ctx := c11ctx[nd.Concretize(nd.Choice(len(c11ctx)))]
	k := nd.Concretize(nd.Choice(nd.Param("k") + 1))
	w := nd.Bytes(k)
	in := append([]byte(ctx), w...)
	if nd.Bool() {
		in = append(in, '\r', '\n')
	}
	nd.Note("in", in)
	c11run(in)
	nd.Reach("survived")
}

// VerifC11Nesting: concrete deep inputs (labelled concrete): what is delivered is at most
// as deep as the decoder's cap.
func VerifC11Nesting() {
	n := nd.Param("depth")
	form := nd.Concretize(nd.Choice(4))
	var in []byte
	switch form {
	case 2, 3:
		// messages embedded in messages (message/rfc822 or message/global)
		typ := "\"RFC822\""
		if form == 3 {
			typ = "\"global\""
		}
		in = append(in, "* 1 FETCH (BODYSTRUCTURE "...)
		for i := 0; i < n; i++ {
			in = append(in, "(\"message\" "+typ+" NIL NIL NIL \"7bit\" 1 (NIL NIL NIL NIL NIL NIL NIL NIL NIL NIL) "...)
		}
		in = append(in, "(\"text\" \"plain\" NIL NIL NIL \"7bit\" 1 1)"...)
		for i := 0; i < n; i++ {
			in = append(in, " 1)"...)
		}
		in = append(in, ")\r\n"...)
	case 0:
		in = append(in, "* 1 FETCH (BODYSTRUCTURE "...)
		for i := 0; i < n; i++ {
			in = append(in, '(')
		}
		in = append(in, "\"text\" \"plain\" NIL NIL NIL \"7bit\" 1 1"...)
		for i := 0; i < n; i++ {
			in = append(in, ") \"mixed\""...)
		}
		in = in[:len(in)-len(" \"mixed\"")]
		in = append(in, ")\r\n"...)
	case 1:
		in = append(in, "* THREAD "...)
		for i := 0; i < n; i++ {
			in = append(in, "(1 "...)
		}
		in = append(in, "(2)"...)
		for i := 0; i < n; i++ {
			in = append(in, ')')
		}
		in = append(in, "\r\n"...)
	}
	bd, td := c11run(in)
	nd.Reach("nested")
	nd.Note("depth", form, n, bd, td)
	nd.Assert(bd <= 1000, "body-structure-nesting-not-bounded")
	nd.Assert(td <= 1000, "thread-nesting-not-bounded")
}

// templates with a symbolic field in the middle of an otherwise well-formed response
var c11tmpl = [][2]string{
	{"* ", " EXPUNGE"}, {"* ", " FETCH (FLAGS ())"}, {"* ", " FETCH (UID 5)"}, {"* 1 FETCH (UID ", ")"}, {"* ", " EXISTS"},
	{"* SEARCH ", ""}, {"* SEARCH 1 ", ""}, {"* ESEARCH (TAG \"T3\") ALL ", ""}, {"* ESEARCH (TAG \"T3\") UID ALL ", ""},
	{"* ESEARCH (TAG \"T3\") MIN ", " MAX 3"}, {"* SORT ", ""}, {"* SORT 2 ", ""}, {"* THREAD (", ")"}, {"* THREAD (1 (", "))"},
	{"* OK [COPYUID 1 ", " 5] x"}, {"* OK [COPYUID 1 5 ", "] x"}, {"T7 OK [COPYUID 1 1 ", "] x"}, {"T7 OK [COPYUID 1 ", " 1] x"}, {"T9 OK [APPENDUID 1 ", "] x"},
	{"* STATUS x (MESSAGES ", ")"}, {"* STATUS x (UIDNEXT ", ")"}, {"* LIST () \"", "\" x"}, {"* 1 FETCH (RFC822.SIZE ", ")"},
	{"* 1 FETCH (BODY[]<", "> \"x\")"}, {"* 1 FETCH (BODY[", "] \"x\")"}, {"* 1 FETCH (BINARY.SIZE[", "] 1)"}, {"* QUOTA x (STORAGE ", " 5)"},
}

// VerifC11Fields: a symbolic field inside a well-formed response.
func VerifC11Fields() {
	t := c11tmpl[nd.Concretize(nd.Choice(len(c11tmpl)))]
	k := 1 + nd.Concretize(nd.Choice(nd.Param("k")))
	w := nd.Bytes(k)
	unilateralFetch = nd.Bool()
	in := append(append([]byte(t[0]), w...), t[1]...)
	in = append(in, '\r', '\n')
	nd.Note("in", in)
	c11run(in)
	nd.Reach("field-survived")
}

var c11table = []string{
	"* ESEARCH (TAG \"T3\") ALL 1:4294967295\r\n", "* ESEARCH (TAG \"T3\") UID ALL 7:4294967295\r\n", "* SEARCH 0\r\n", "* SEARCH 1 2 0\r\n",
	"* 0 EXPUNGE\r\n", "* 0 FETCH (FLAGS ())\r\n", "* 1 FETCH (UID 0)\r\n", "* SORT 0\r\n", "* THREAD (0)\r\n", "* OK [COPYUID 1 1:* 5] x\r\n",
	"* SEARCH 4294967295\r\n", "* ESEARCH (TAG \"T3\") ALL 4294967295\r\n", "* SEARCH 4294967296\r\n", "* 4294967296 EXISTS\r\n",
	"* 1 FETCH (RFC822.SIZE 9223372036854775808)\r\n", "* 1 FETCH (BODY[] {99999999999999999999}\r\n", "* 1 FETCH (BODY[] {5}\r\nab",
	"* 1 FETCH (BINARY.SIZE[1] 42)\r\n", "* 1 FETCH (BODY[]<0> \"x\")\r\n",
}

// VerifC11Table: concrete boundary lines (zero numbers, 2^32-1, overflow, truncated literal).
func VerifC11Table() {
	i := nd.Concretize(nd.Choice(len(c11table)))
	unilateralFetch = nd.Bool()
	nd.Note("row", i)
	c11run([]byte(c11table[i]))
	nd.Reach("row")
}
