package imapserver

// Harness for C05 (server state machine): one command from an arbitrary
// (state, configuration, backend outcome), against a table transcribed from RFC 9051.

import (
	"bufio"
	"crypto/tls"
	"net"
	"strings"

	"github.com/emersion/go-imap/v2"
	"github.com/emersion/go-imap/v2/internal/imapwire"
	nd "github.com/emersion/go-imap/v2/internal/zzverif/nd"
)

func init() {
	nd.Register("VerifC05Step", VerifC05Step)
	nd.Register("VerifC05Serve", VerifC05Serve)
}

const (
	c05NA  = 1 // not authenticated
	c05A   = 2 // authenticated
	c05S   = 4 // selected
	c05Any = 7
)

type c05cmd struct {
	line   string   // command text after the tag
	extra  string   // further client lines (literal payload, DONE, SASL response)
	ops    []string // backend operations, in order, when permitted and succeeding
	states int      // states in which RFC 9051 permits the command
	kind   string   // "", "login", "select", "unselect", "logout", "unauth", "unknown", "starttls"
}

var c05cmds = []c05cmd{
	{"NOOP", "", nil, c05Any, ""},
	{"CHECK", "", nil, c05Any, ""},
	{"CAPABILITY", "", nil, c05Any, ""},
	{"LOGOUT", "", nil, c05Any, "logout"},
	{"STARTTLS", "", nil, c05NA, "starttls"},
	{"LOGIN u p", "", []string{"Login"}, c05NA, "login"},
	{"LOGIN {1+}\r\nu {1+}\r\np", "", []string{"Login"}, c05NA, "login"},
	{"AUTHENTICATE PLAIN AHUAcA==", "", []string{"Login"}, c05NA, "login"},
	{"AUTHENTICATE PLAIN", "AHUAcA==\r\n", []string{"Login"}, c05NA, "login"},
	{"UNAUTHENTICATE", "", []string{"Unauthenticate"}, c05A | c05S, "unauth"},
	{"ENABLE UTF8=ACCEPT", "", nil, c05A | c05S, ""},
	{"CREATE m", "", []string{"Create"}, c05A | c05S, ""},
	{"DELETE m", "", []string{"Delete"}, c05A | c05S, ""},
	{"RENAME a b", "", []string{"Rename"}, c05A | c05S, ""},
	{"SUBSCRIBE m", "", []string{"Subscribe"}, c05A | c05S, ""},
	{"UNSUBSCRIBE m", "", []string{"Unsubscribe"}, c05A | c05S, ""},
	{"STATUS m (MESSAGES)", "", []string{"Status"}, c05A | c05S, ""},
	{"LIST \"\" *", "", []string{"List"}, c05A | c05S, ""},
	{"LSUB \"\" *", "", []string{"List"}, c05A | c05S, ""},
	{"NAMESPACE", "", []string{"Namespace"}, c05A | c05S, ""},
	{"APPEND m {3+}\r\nabc", "", []string{"Append"}, c05A | c05S, ""},
	{"IDLE", "DONE\r\n", []string{"Idle"}, c05A | c05S, ""},
	{"SELECT m", "", []string{"Select"}, c05A | c05S, "select"},
	{"EXAMINE m", "", []string{"Select"}, c05A | c05S, "select"},
	{"CLOSE", "", []string{"Expunge", "Unselect"}, c05S, "unselect"},
	{"UNSELECT", "", []string{"Unselect"}, c05S, "unselect"},
	{"EXPUNGE", "", []string{"Expunge"}, c05S, ""},
	{"UID EXPUNGE 1", "", []string{"Expunge"}, c05S, ""},
	{"FETCH 1 FLAGS", "", []string{"Fetch"}, c05S, ""},
	{"UID FETCH 1 FLAGS", "", []string{"Fetch"}, c05S, ""},
	{"STORE 1 +FLAGS (\\Seen)", "", []string{"Store"}, c05S, ""},
	{"UID STORE 1 FLAGS.SILENT (\\Seen)", "", []string{"Store"}, c05S, ""},
	{"COPY 1 m", "", []string{"Copy"}, c05S, ""},
	{"UID COPY 1 m", "", []string{"Copy"}, c05S, ""},
	{"MOVE 1 m", "", []string{"Move"}, c05S, ""},
	{"UID MOVE 1 m", "", []string{"Move"}, c05S, ""},
	{"SEARCH ALL", "", []string{"Search"}, c05S, ""},
	{"UID SEARCH ALL", "", []string{"Search"}, c05S, ""},
	{"FROBNICATE", "", nil, 0, "unknown"},
}

func c05bit(st imap.ConnState) int {
	switch st {
	case imap.ConnStateNotAuthenticated:
		return c05NA
	case imap.ConnStateAuthenticated:
		return c05A
	case imap.ConnStateSelected:
		return c05S
	}
	return 0
}

var c05allCaps = imap.CapSet{imap.CapIMAP4rev1: {}, imap.CapIMAP4rev2: {}, imap.CapNamespace: {}, imap.CapMove: {}, imap.CapUnauthenticate: {}, imap.CapLiteralPlus: {}, imap.CapUIDPlus: {}, imap.CapESearch: {}}

// c05conn builds a connection in the given state; over TLS the protocol reader/writer
// stay on the plain scripted conn (the TLS record layer is not the subject).
func c05conn(v *vServer, vc *vConn, st imap.ConnState, isTLS bool) *Conn {
	var nc net.Conn = vc
	if isTLS {
		nc = tls.Server(vc, &tls.Config{})
	}
	c := &Conn{conn: nc, server: v.srv, br: bufio.NewReader(vc), bw: bufio.NewWriter(vc), enabled: make(imap.CapSet)}
	c.session = v.sess
	v.sess.conn = c
	c.state = st
	return c
}

func c05tagged(lines []string, tag string) (typ string, n int) {
	for _, ln := range lines {
		if vHasPrefix(ln, tag+" ") {
			n++
			rest := ln[len(tag)+1:]
			if i := strings.IndexByte(rest, ' '); i > 0 {
				typ = rest[:i]
			} else {
				typ = rest
			}
		}
	}
	return typ, n
}

func c05capLine(lines []string) (string, bool) {
	for _, ln := range lines {
		if i := strings.Index(ln, "CAPABILITY "); i >= 0 {
			end := strings.IndexByte(ln[i:], ']')
			if end < 0 {
				return ln[i:] + " ", true
			}
			return ln[i:i+end] + " ", true
		}
	}
	return "", false
}

// VerifC05Step: one command from every (state x TLS x InsecureAuth x TLSConfig x backend
// outcome) combination.
func VerifC05Step() {
	st := []imap.ConnState{imap.ConnStateNotAuthenticated, imap.ConnStateAuthenticated, imap.ConnStateSelected}[nd.Concretize(nd.Choice(3))]
	isTLS := nd.Bool()
	insecure := nd.Bool()
	tlsCfg := nd.Bool()
	fail := nd.Bool()
	cmd := c05cmds[nd.Concretize(nd.Choice(len(c05cmds)))]
	v := vNewServer(c05allCaps, insecure)
	if tlsCfg {
		v.srv.options.TLSConfig = &tls.Config{}
	}
	vc := &vConn{in: []byte("T1 " + cmd.line + "\r\n" + cmd.extra)}
	c := c05conn(v, vc, st, isTLS)
	mainOp := ""
	if len(cmd.ops) > 0 {
		mainOp = cmd.ops[len(cmd.ops)-1]
		if fail {
			v.sess.fail[mainOp] = true
		}
	}
	dec := imapwire.NewDecoder(c.br, imapwire.ConnSideServer)
	dec.CheckBufferedLiteralFunc = c.checkBufferedLiteral
	err := c.readCommand(dec)
	c.bw.Flush()
	nd.Reach("stepped")
	nd.Note("cmd", cmd.line, int(st), isTLS, insecure, tlsCfg, fail)
	nd.Note("out", string(vc.out))
	nd.Assert(err == nil, "command-handled-without-connection-error")
	nd.Assert(v.log.panics == 0, "no-panic-logged")

	permitted := cmd.states&c05bit(st) != 0
	canAuth := st == imap.ConnStateNotAuthenticated && (isTLS || insecure)
	if cmd.kind == "login" {
		permitted = permitted && canAuth
	}
	if cmd.kind == "starttls" {
		permitted = permitted && tlsCfg && !isTLS
	}
	ops := v.sess.ops()
	lines, rest := vLines(vc.out)
	nd.Assert(rest == "", "output-is-whole-lines")
	typ, ntag := c05tagged(lines, "T1")

	// 1. the backend is reached only in permitted states
	if !permitted {
		nd.Assert(len(ops) == 0, "backend-not-reached-when-not-permitted")
	} else {
		want := cmd.ops
		if cmd.kind == "select" && st == imap.ConnStateSelected {
			want = []string{"Unselect", "Select"}
		}
		// a failing main operation stops the sequence there
		nd.Assert(len(ops) <= len(want), "no-unexpected-backend-operation")
		for i := range ops {
			if i < len(want) {
				nd.Assert(ops[i].op == want[i], "backend-operations-in-order")
			}
		}
		if !fail {
			nd.Assert(len(ops) == len(want), "permitted-command-reaches-backend")
		}
		for _, o := range ops {
			if o.op == "Login" {
				nd.Assert(o.state == imap.ConnStateNotAuthenticated, "state-unchanged-while-backend-decides-login")
			}
		}
	}

	// 2. exactly one tagged completion of the right class
	if cmd.kind != "starttls" || !permitted {
		nd.Assert(ntag == 1, "exactly-one-tagged-completion")
	}
	switch {
	case cmd.kind == "unknown":
		nd.Assert(typ == "BAD", "unknown-command-is-bad")
	case !permitted:
		nd.Assert(typ == "BAD" || typ == "NO", "not-permitted-is-refused")
	case fail && mainOp != "":
		nd.Assert(typ == "NO", "backend-failure-is-no")
	default:
		nd.Assert(typ == "OK", "permitted-success-is-ok")
	}

	// 3. state transition
	want := st
	ok := permitted && !(fail && mainOp != "")
	switch cmd.kind {
	case "login":
		if ok {
			want = imap.ConnStateAuthenticated
		}
	case "select":
		if ok {
			want = imap.ConnStateSelected
		} else if permitted {
			want = imap.ConnStateAuthenticated // failed SELECT leaves no mailbox selected
		}
	case "unselect":
		if ok {
			want = imap.ConnStateAuthenticated
		}
	case "logout":
		want = imap.ConnStateLogout
	case "unauth":
		if ok {
			want = imap.ConnStateNotAuthenticated
		}
	case "unknown":
		if st == imap.ConnStateNotAuthenticated {
			want = imap.ConnStateLogout
		}
	}
	nd.Assert(c.state == want, "state-transition-as-rfc")
	if cmd.kind == "logout" || (cmd.kind == "unknown" && st == imap.ConnStateNotAuthenticated) {
		bye := false
		for _, ln := range lines {
			bye = bye || vHasPrefix(ln, "* BYE")
		}
		nd.Assert(bye, "bye-sent")
	}
	if cmd.kind == "unknown" && st == imap.ConnStateNotAuthenticated {
		nd.Assert(vc.closed > 0, "unknown-command-before-auth-terminates-connection")
	}

	// 4. advertised capabilities match what is possible now
	if capLine, found := c05capLine(lines); found {
		nowNA := c.state == imap.ConnStateNotAuthenticated
		nowCanAuth := nowNA && (isTLS || insecure)
		nd.Assert(strings.Contains(capLine, " LOGINDISABLED ") == (nowNA && !nowCanAuth), "logindisabled-iff-auth-impossible")
		nd.Assert(strings.Contains(capLine, " AUTH=PLAIN ") == nowCanAuth, "auth-advertised-iff-possible")
		nd.Assert(strings.Contains(capLine, " STARTTLS ") == (nowNA && tlsCfg && !isTLS), "starttls-advertised-iff-possible")
	}
}

// VerifC05Serve: the serve loop's own glue: greeting OK/PREAUTH, processing stops at
// LOGOUT and at an unknown pre-auth command, session closed exactly once.
func VerifC05Serve() {
	preAuth := nd.Bool()
	insecure := nd.Bool()
	first := []string{"NOOP", "LOGIN u p", "SELECT m", "FROBNICATE", "LOGOUT", "CAPABILITY"}[nd.Concretize(nd.Choice(6))]
	second := []string{"NOOP", "SELECT m", "LOGOUT", "CREATE x"}[nd.Concretize(nd.Choice(4))]
	v := vNewServer(c05allCaps, insecure)
	v.preAuth = preAuth
	vc := &vConn{in: []byte("A1 " + first + "\r\nA2 " + second + "\r\nA3 NOOP\r\n")}
	c := newConn(vc, v.srv)
	c.serve()
	nd.Reach("served")
	nd.Note("script", first, second, preAuth, insecure)
	nd.Note("out", string(vc.out))
	lines, rest := vLines(vc.out)
	nd.Assert(rest == "", "serve-output-whole-lines")
	nd.Assert(len(lines) > 0, "greeting-sent")
	if len(lines) > 0 {
		if preAuth {
			nd.Assert(vHasPrefix(lines[0], "* PREAUTH "), "greeting-preauth")
		} else {
			nd.Assert(vHasPrefix(lines[0], "* OK "), "greeting-ok")
		}
	}
	nd.Assert(v.sess.closed == 1, "session-closed-exactly-once")
	nd.Assert(vc.closed > 0, "connection-closed")
	nd.Assert(len(v.srv.conns) == 0, "connection-unregistered")
	nd.Assert(v.log.panics == 0, "serve-no-panic")
	_, n1 := c05tagged(lines, "A1")
	_, n2 := c05tagged(lines, "A2")
	_, n3 := c05tagged(lines, "A3")
	nd.Assert(n1 == 1, "first-command-answered-once")
	stopAfter1 := first == "LOGOUT" || (first == "FROBNICATE" && !preAuth)
	stopAfter2 := second == "LOGOUT"
	if stopAfter1 {
		nd.Assert(n2 == 0 && n3 == 0, "nothing-processed-after-logout")
	} else {
		nd.Assert(n2 == 1, "second-command-answered-once")
		if stopAfter2 {
			nd.Assert(n3 == 0, "nothing-processed-after-second-logout")
		} else {
			nd.Assert(n3 == 1, "third-command-answered-once")
		}
	}
	// backend calls only in permitted states
	for _, o := range v.sess.ops() {
		switch o.op {
		case "Login":
			nd.Assert(o.state == imap.ConnStateNotAuthenticated && insecure, "login-only-when-allowed")
		case "Select", "Create":
			nd.Assert(o.state != imap.ConnStateNotAuthenticated, "mailbox-ops-only-after-auth")
		}
	}
}
