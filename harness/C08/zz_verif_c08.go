package imapmemserver

// C08 — on-the-wire mailbox view consistency across sessions. Injected by overlay into
// package imapmemserver (so that the harness can compare with Mailbox.l).
//
// S real server connections (imapserver.Server.Serve + the real connection loop, the
// in-memory backend, the real trackers) are driven one command at a time. The history is
// symbolic: which session, which command and which message number are solver-decided
// choice values. An observer tokenises each connection's output independently of imapwire
// and maintains the announced message count and the UID list the client can reconstruct.

import (
	"io"
	"net"
	"strings"
	"time"

	"github.com/emersion/go-imap/v2"
	"github.com/emersion/go-imap/v2/imapserver"
	nd "github.com/emersion/go-imap/v2/internal/zzverif/nd"
)

func init() {
	nd.Register("VerifC08History", VerifC08History)
}

type c08addr struct{}

func (c08addr) Network() string { return "verif" }
func (c08addr) String() string  { return "verif" }

// c08conn: an interactive scripted client; Read blocks (yields) until the driver has
// queued more input.
type c08conn struct {
	in     []byte
	pos    int
	out    []byte
	eof    bool
	closed bool
}

func (c *c08conn) Read(p []byte) (int, error) {
	for c.pos >= len(c.in) {
		if c.closed {
			return 0, net.ErrClosed
		}
		if c.eof {
			return 0, io.EOF
		}
		time.Sleep(time.Millisecond)
	}
	n := copy(p, c.in[c.pos:])
	c.pos += n
	return n, nil
}
func (c *c08conn) Write(p []byte) (int, error) {
	if c.closed {
		return 0, net.ErrClosed
	}
	c.out = append(c.out, p...)
	return len(p), nil
}
func (c *c08conn) Close() error                       { c.closed = true; return nil }
func (c *c08conn) LocalAddr() net.Addr                { return c08addr{} }
func (c *c08conn) RemoteAddr() net.Addr               { return c08addr{} }
func (c *c08conn) SetDeadline(t time.Time) error      { return nil }
func (c *c08conn) SetReadDeadline(t time.Time) error  { return nil }
func (c *c08conn) SetWriteDeadline(t time.Time) error { return nil }

type c08ln struct {
	conns []*c08conn
	next  int
}

func (l *c08ln) Accept() (net.Conn, error) {
	if l.next >= len(l.conns) {
		return nil, net.ErrClosed
	}
	c := l.conns[l.next]
	l.next++
	return c, nil
}
func (l *c08ln) Close() error   { return nil }
func (l *c08ln) Addr() net.Addr { return c08addr{} }

type c08log struct{ panics int }

func (l *c08log) Printf(format string, args ...interface{}) {
	if strings.HasPrefix(format, "panic") {
		l.panics++
	}
}

// c08client: the observer of one connection.
type c08client struct {
	id      int
	conn    *c08conn
	seen    int // bytes of conn.out already tokenised
	ntag    int
	count   int      // announced message count
	uids    []uint32 // reconstructed view: UID per position (0 = not learnt yet)
	removed []uint32 // UIDs of messages reported as expunged
}

func c08atoi(s string) (int, bool) {
	if len(s) == 0 || len(s) > 10 {
		return 0, false
	}
	n := 0
	for i := 0; i < len(s); i++ {
		if s[i] < '0' || s[i] > '9' {
			return 0, false
		}
		n = n*10 + int(s[i]-'0')
	}
	return n, true
}

// run sends one command and processes everything up to its tagged completion. kind: 'F'
// non-UID FETCH/STORE/SEARCH (no EXPUNGE allowed inside), 'U' a UID command, 'O' other.
func (cl *c08client) run(kind byte, cmd string) (status string, searchHits []int) {
	cl.ntag++
	tag := "T" + string(rune('0'+cl.ntag/10)) + string(rune('0'+cl.ntag%10))
	cl.conn.in = append(cl.conn.in, tag+" "+cmd+"\r\n"...)
	from := len(cl.conn.out)
	defer func() { nd.Note("cmd", cl.id, tag+" "+cmd, string(cl.conn.out[from:])) }()
	for spins := 0; spins < 20000; spins++ {
		out := cl.conn.out
		for {
			rest := string(out[cl.seen:])
			i := strings.Index(rest, "\r\n")
			if i < 0 {
				break
			}
			line := rest[:i]
			// a literal: "{n}" CRLF n octets, then the rest of the response line
			if lb := strings.LastIndexByte(line, '{'); lb >= 0 && strings.HasSuffix(line, "}") {
				if n, ok := c08atoi(line[lb+1 : len(line)-1]); ok {
					tail := rest[i+2:]
					if len(tail) < n {
						break // wait for the payload
					}
					j := strings.Index(tail[n:], "\r\n")
					if j < 0 {
						break
					}
					// (the payload and the remainder of the line carry nothing the
					// observer looks at)
					i += 2 + n + j
				}
			}
			cl.seen += i + 2
			if strings.HasPrefix(line, tag+" ") {
				f := strings.Fields(line)
				return f[1], searchHits
			}
			nd.Assert(strings.HasPrefix(line, "* ") || strings.HasPrefix(line, "+ "), "unexpected-tagged-line")
			f := strings.Fields(line)
			if len(f) >= 3 {
				if n, ok := c08atoi(f[1]); ok {
					switch f[2] {
					case "EXISTS":
						nd.Assert(n >= cl.count, "announced-count-shrinks-without-expunge")
						for len(cl.uids) < n {
							cl.uids = append(cl.uids, 0)
						}
						cl.count = n
					case "EXPUNGE":
						nd.Assert(kind != 'F', "expunge-sent-while-answering-non-uid-fetch-store-search")
						nd.Assert(n >= 1 && n <= cl.count, "expunge-sequence-number-outside-announced-range")
						if n >= 1 && n <= cl.count {
							cl.removed = append(cl.removed, cl.uids[n-1])
							cl.uids = append(cl.uids[:n-1:n-1], cl.uids[n:]...)
							cl.count--
						}
					case "FETCH":
						nd.Assert(n >= 1 && n <= cl.count, "fetch-sequence-number-outside-announced-range")
						// (UID u ...)
						for j := 3; j+1 < len(f); j++ {
							if strings.TrimLeft(f[j], "(") == "UID" {
								if u, ok := c08atoi(strings.TrimRight(f[j+1], ")")); ok && n >= 1 && n <= cl.count {
									nd.Assert(cl.uids[n-1] == 0 || cl.uids[n-1] == uint32(u), "fetch-names-a-different-message-than-the-client-has-at-that-number")
									cl.uids[n-1] = uint32(u)
								}
							}
						}
					}
				}
			}
			if len(f) >= 2 && f[1] == "SEARCH" && kind == 'F' {
				for _, x := range f[2:] {
					n, ok := c08atoi(x)
					nd.Assert(ok && n >= 1 && n <= cl.count, "search-result-outside-announced-range")
					searchHits = append(searchHits, n)
				}
			}
		}
		if cl.conn.closed {
			return "CLOSED", searchHits
		}
		time.Sleep(time.Millisecond)
	}
	nd.Fail("command-got-no-tagged-completion")
	return "", nil
}

func c08itoa(n int) string {
	if n == 0 {
		return "0"
	}
	var b []byte
	for n > 0 {
		b = append([]byte{byte('0' + n%10)}, b...)
		n /= 10
	}
	return string(b)
}

const c08msg = "Subject: x\r\n\r\nbody"

// VerifC08History: params s (sessions), l (history length).
func VerifC08History() {
	S, L := nd.Param("s"), nd.Param("l")
	mem := New()
	user := NewUser("u", "p")
	mem.AddUser(user)
	user.Create("m", nil)
	user.Create("other", nil)
	mbox := user.mailboxes["m"]
	for i := 0; i < 3; i++ {
		mbox.appendBytes([]byte(c08msg), &imap.AppendOptions{Time: time.Date(2024, 1, 1, 0, 0, 0, 0, time.UTC)})
	}
	lg := &c08log{}
	srv := imapserver.New(&imapserver.Options{
		NewSession: func(conn *imapserver.Conn) (imapserver.Session, *imapserver.GreetingData, error) {
			return mem.NewSession(), nil, nil
		},
		Caps:         imap.CapSet{imap.CapIMAP4rev1: {}, imap.CapMove: {}, imap.CapUIDPlus: {}, imap.CapLiteralPlus: {}},
		InsecureAuth: true,
		Logger:       lg,
	})
	ln := &c08ln{}
	var cls []*c08client
	for i := 0; i < S; i++ {
		c := &c08conn{}
		ln.conns = append(ln.conns, c)
		cls = append(cls, &c08client{id: i, conn: c})
	}
	srv.Serve(ln)
	// prologue: everybody logs in and selects m, and learns the UIDs
	for _, cl := range cls {
		st, _ := cl.run('O', "LOGIN u p")
		nd.Assert(st == "OK", "login-failed")
		st, _ = cl.run('O', "SELECT m")
		nd.Assert(st == "OK", "select-failed")
		st, _ = cl.run('F', "FETCH 1:* (UID)")
		nd.Assert(st == "OK", "fetch-failed")
	}
	// symbolic history
	for step := 0; step < L; step++ {
		cl := cls[nd.Choice(S)]
		n := 1 + nd.Choice(nd.Param("nmax")) // message number 1..nmax (may exceed the count)
		ns := c08itoa(n)
		switch nd.Choice(13) {
		case 12:
			cl.run('F', "FETCH "+ns+" (BODY[TEXT])")
		case 0:
			cl.run('O', "APPEND m {"+c08itoa(len(c08msg))+"+}\r\n"+c08msg)
		case 1:
			cl.run('F', "STORE "+ns+" +FLAGS (\\Deleted)")
		case 2:
			cl.run('U', "UID STORE "+ns+":* +FLAGS.SILENT (\\Deleted)")
		case 3:
			cl.run('O', "EXPUNGE")
		case 4:
			cl.run('U', "UID EXPUNGE "+ns+":*")
		case 5:
			cl.run('O', "COPY "+ns+" other")
		case 6:
			cl.run('O', "MOVE "+ns+" other")
		case 7:
			cl.run('F', "FETCH "+ns+":* (FLAGS UID)")
		case 8:
			cl.run('U', "UID FETCH "+ns+":* (FLAGS)")
		case 9:
			cl.run('F', "SEARCH ALL")
		case 10:
			cl.run('O', "NOOP")
		default:
			cl.run('F', "SEARCH "+ns+":* UNDELETED")
		}
	}
	nd.Reach("history")
	// quiescence: every session issues NOOP; then its reconstructed list must equal the
	// mailbox's actual list
	for _, cl := range cls {
		st, _ := cl.run('O', "NOOP")
		nd.Assert(st == "OK", "noop-failed")
		nd.Assert(cl.count == len(mbox.l), "announced-count-after-noop-differs-from-mailbox")
		// learn UIDs of messages announced by EXISTS (a non-UID FETCH of the whole view)
		if cl.count > 0 {
			st, _ = cl.run('F', "FETCH 1:* (UID)")
			nd.Assert(st == "OK", "fetch-failed")
		}
		for i := 0; i < cl.count && i < len(mbox.l); i++ {
			nd.Assert(cl.uids[i] == uint32(mbox.l[i].uid), "reconstructed-message-list-differs-from-mailbox")
		}
		// each removed message reported exactly once
		for i, u := range cl.removed {
			for j := 0; j < i; j++ {
				nd.Assert(u == 0 || cl.removed[j] != u, "message-reported-expunged-twice")
			}
			for _, m := range mbox.l {
				nd.Assert(uint32(m.uid) != u, "message-reported-expunged-but-still-in-mailbox")
			}
		}
	}
	nd.Assert(lg.panics == 0, "server-logged-a-panic")
	for _, cl := range cls {
		cl.conn.eof = true
	}
	for i := 0; i < 500; i++ {
		all := true
		for _, cl := range cls {
			all = all && cl.conn.closed
		}
		if all {
			break
		}
		time.Sleep(time.Millisecond)
	}
	nd.Reach("quiescent")
}
