package internal

// Harness for C01 (wire encoder/decoder round trip). Injected by overlay into package
// internal, which sees both imapwire and the flag helpers.

import (
	"bufio"
	"bytes"
	"strings"
	"unicode/utf8"

	"github.com/emersion/go-imap/v2"
	"github.com/emersion/go-imap/v2/internal/imapwire"
	nd "github.com/emersion/go-imap/v2/internal/zzverif/nd"
)

func init() {
	nd.Register("VerifC01String", VerifC01String)
	nd.Register("VerifC01LongString", VerifC01LongString)
	nd.Register("VerifC01Mailbox", VerifC01Mailbox)
	nd.Register("VerifC01LongMailbox", VerifC01LongMailbox)
	nd.Register("VerifC01Flag", VerifC01Flag)
	nd.Register("VerifC01Number", VerifC01Number)
	nd.Register("VerifC01NumSet", VerifC01NumSet)
	nd.Register("VerifC01List", VerifC01List)
	nd.Register("VerifC01Depth", VerifC01Depth)
}

type c01link struct {
	buf  bytes.Buffer
	enc  *imapwire.Encoder
	side imapwire.ConnSide
	sync int // synchronising literals emitted
}

// c01encoder: an encoder of a symbolic side with symbolic mode flags. Continuation
// requests complete at once (their timing is the subject of C18).
func c01encoder() *c01link {
	l := &c01link{}
	l.side = imapwire.ConnSideServer
	if nd.Bool() {
		l.side = imapwire.ConnSideClient
	}
	l.enc = imapwire.NewEncoder(bufio.NewWriter(&l.buf), l.side)
	l.enc.QuotedUTF8 = nd.Bool()
	l.enc.LiteralMinus = nd.Bool()
	l.enc.LiteralPlus = nd.Bool()
	l.enc.NewContinuationRequest = func() *imapwire.ContinuationRequest {
		l.sync++
		c := imapwire.NewContinuationRequest()
		c.Done("")
		return c
	}
	return l
}

// finish writes the sentinel and returns the encoder's verdict.
func (l *c01link) finish() error {
	l.enc.SP().Atom("Zz")
	return l.enc.CRLF()
}

// decoder returns the peer's decoder over exactly the bytes written.
func (l *c01link) decoder() *imapwire.Decoder {
	peer := imapwire.ConnSideClient
	if l.side == imapwire.ConnSideClient {
		peer = imapwire.ConnSideServer
	}
	return imapwire.NewDecoder(bufio.NewReader(bytes.NewReader(l.buf.Bytes())), peer)
}

// c01tail: after the value the decoder must find exactly SP sentinel CRLF and nothing else.
func c01tail(dec *imapwire.Decoder, label string) {
	var s string
	ok := dec.ExpectSP() && dec.ExpectAtom(&s) && s == "Zz" && dec.ExpectCRLF()
	nd.Assert(ok, label+"-consumes-exactly-the-bytes-written")
	nd.Assert(dec.EOF(), label+"-nothing-left")
	// the decoder is back in its rest state: what it decodes next does not depend on what
	// it decoded before
	nd.Assert(dec.VerifListDepth() == 0, label+"-decoder-nesting-state-not-restored")
	nd.Assert(!dec.VerifLiteralOpen(), label+"-decoder-literal-left-open")
}

// VerifC01String: every byte string up to the bound, every mode combination, both sides,
// through each string-reading entry point of the decoder.
func VerifC01String() {
	n := nd.Concretize(nd.Choice(nd.Param("n") + 1))
	s := nd.String(n)
	l := c01encoder()
	l.enc.String(s)
	err := l.finish()
	nd.Reach("string-encoded")
	nd.Note("wire", l.buf.Bytes())
	nd.Assert(err == nil, "string-always-representable")
	if err != nil {
		return
	}
	how := nd.Concretize(nd.Choice(4))
	dec := l.decoder()
	var got string
	ok := false
	switch how {
	case 0:
		ok = dec.ExpectAString(&got)
	case 1:
		ok = dec.ExpectString(&got)
	case 2:
		ok = dec.ExpectNString(&got)
	case 3:
		lit, _, ok2 := dec.ExpectNStringReader()
		ok = ok2
		if ok2 && lit != nil {
			nd.Assert(lit.Size() == int64(n), "literal-reader-size")
			b := make([]byte, n+2)
			m := 0
			for {
				k, e := lit.Read(b[m:])
				m += k
				if e != nil || k == 0 {
					break
				}
			}
			got = string(b[:m])
		}
	}
	nd.Assert(ok, "string-decodes")
	nd.Assert(got == s, "string-roundtrip-equal")
	c01tail(dec, "string")
}

// VerifC01LongString: lengths around the 4096-byte threshold: concrete filler with a
// symbolic 3-byte window at the start, middle or end.
func VerifC01LongString() {
	n := nd.Param("len")
	b := make([]byte, n)
	for i := range b {
		b[i] = 'a'
	}
	at := []int{0, n / 2, n - 3}[nd.Concretize(nd.Choice(3))]
	for i := 0; i < 3; i++ {
		b[at+i] = nd.Byte()
	}
	s := string(b)
	l := c01encoder()
	l.enc.String(s)
	err := l.finish()
	nd.Reach("long-encoded")
	nd.Assert(err == nil, "long-string-always-representable")
	if err != nil {
		return
	}
	wire := l.buf.Bytes()
	nd.Assert(nd.Implies(n > 4096, wire[0] == '{'), "over-4096-bytes-is-a-literal")
	if l.side == imapwire.ConnSideClient && wire[0] == '{' {
		plus := bytes.Contains(wire[:8], []byte("+}"))
		nd.Assert(plus == (l.sync == 0), "nonsync-marker-iff-no-continuation")
		if plus {
			nd.Assert(nd.Or(l.enc.LiteralPlus, nd.And(l.enc.LiteralMinus, n <= 4096)), "nonsync-literal-only-when-negotiated")
		}
	}
	dec := l.decoder()
	var got string
	nd.Assert(dec.ExpectAString(&got), "long-string-decodes")
	nd.Assert(got == s, "long-string-roundtrip-equal")
	c01tail(dec, "long-string")
}

// VerifC01Mailbox: valid UTF-8 names; INBOX in any case decodes to INBOX.
func VerifC01Mailbox() {
	var name string
	if nd.Bool() {
		n := nd.Concretize(nd.Choice(nd.Param("n") + 1))
		name = nd.String(n)
	} else {
		name = nd.String(5)
		nd.Assume(strings.EqualFold(name, "INBOX"))
	}
	nd.Assume(utf8.ValidString(name))
	l := c01encoder()
	l.enc.Mailbox(name)
	err := l.finish()
	nd.Reach("mailbox-encoded")
	nd.Note("name", name)
	nd.Assert(err == nil, "mailbox-always-representable")
	if err != nil {
		return
	}
	dec := l.decoder()
	var got string
	nd.Assert(dec.ExpectMailbox(&got), "mailbox-decodes")
	if strings.EqualFold(name, "INBOX") {
		nd.Assert(got == "INBOX", "inbox-canonical")
	} else {
		nd.Assert(got == name, "mailbox-roundtrip-equal")
	}
	c01tail(dec, "mailbox")
}

// VerifC01LongMailbox: names longer than the 128-byte chunks in which the UTF-7 transformer
// is fed (x/text transform.String): a concrete filler of 2-byte characters (optionally
// shifted by one ASCII byte so that the chunk boundary falls inside / between characters)
// with a window of symbolic bytes straddling the boundary; the encoded form also exceeds
// the 128-byte destination chunk.
func VerifC01LongMailbox() {
	total := nd.Param("len")
	pre := nd.Concretize(nd.Choice(2))
	at := 128 - 2 + nd.Concretize(nd.Choice(3)) - 1 // window starts at 125, 126 or 127
	b := make([]byte, 0, total)
	for i := 0; i < pre; i++ {
		b = append(b, 'A')
	}
	for len(b)+1 < total {
		b = append(b, 0xd0, 0xb4) // U+0434
	}
	for len(b) < total {
		b = append(b, 'z')
	}
	for i := 0; i < nd.Param("w"); i++ {
		b[at+i] = nd.Byte()
	}
	name := string(b)
	nd.Assume(utf8.ValidString(name))
	l := c01encoder()
	l.enc.Mailbox(name)
	err := l.finish()
	nd.Reach("long-mailbox-encoded")
	nd.Assert(err == nil, "long-mailbox-always-representable")
	if err != nil {
		return
	}
	dec := l.decoder()
	var got string
	nd.Assert(dec.ExpectMailbox(&got), "long-mailbox-decodes")
	nd.Assert(got == name, "long-mailbox-roundtrip-equal")
	c01tail(dec, "long-mailbox")
}

var c01wellKnown = []string{"\\Seen", "\\Answered", "\\Flagged", "\\Deleted", "\\Draft", "$Forwarded", "$MDNSent", "$Junk", "$NotJunk", "$Phishing", "$Important",
	"\\NonExistent", "\\Noinferiors", "\\Noselect", "\\HasChildren", "\\HasNoChildren", "\\Marked", "\\Unmarked", "\\Subscribed", "\\Remote",
	"\\All", "\\Archive", "\\Drafts", "\\Flagged", "\\Junk", "\\Sent", "\\Trash", "\\Important"}

func c01canonOK(in, got string) bool {
	if got == in {
		return true
	}
	if !strings.EqualFold(got, in) {
		return false
	}
	for _, w := range c01wellKnown {
		if got == w {
			return true
		}
	}
	return false
}

// VerifC01Flag: flags and mailbox attributes: what the encoder accepts decodes to the
// (case-normalised) same flag; everything else is refused with an error.
func VerifC01Flag() {
	n := nd.Concretize(nd.Choice(nd.Param("n") + 1))
	f := nd.String(n)
	attr := nd.Bool()
	l := c01encoder()
	if attr {
		l.enc.MailboxAttr(imap.MailboxAttr(f))
	} else {
		l.enc.Flag(imap.Flag(f))
	}
	err := l.finish()
	nd.Reach("flag-encoded")
	nd.Note("flag", f, attr, err == nil)
	if err != nil {
		nd.Reach("flag-refused@n>=1")
		return
	}
	dec := l.decoder()
	var got string
	var derr error
	if attr {
		var a imap.MailboxAttr
		a, derr = ExpectMailboxAttr(dec)
		got = string(a)
	} else {
		var fl imap.Flag
		fl, derr = ExpectFlag(dec)
		got = string(fl)
	}
	nd.Assert(derr == nil, "accepted-flag-decodes")
	if derr != nil {
		return
	}
	nd.Assert(c01canonOK(f, got), "flag-roundtrip-modulo-case-normalisation")
	c01tail(dec, "flag")
}

var c01windows = [][2]uint64{{0, 1100}, {99990, 100010}, {4294967280, 4294967295}, {9223372036854775790, 9223372036854775807}, {18446744073709551600, 18446744073709551615}, {1, 12}, {4294967288, 4294967295}}

// VerifC01Number: Number/UID (uint32), Number64 (int64), ModSeq (uint64) inside value windows.
func VerifC01Number() {
	kind := nd.Param("kind")
	w := c01windows[nd.Param("win")]
	v := nd.Uint64()
	nd.Assume(v >= w[0])
	nd.Assume(v <= w[1])
	l := c01encoder()
	switch kind {
	case 0:
		nd.Assume(v <= 0xffffffff)
		l.enc.Number(uint32(v))
	case 1:
		nd.Assume(v <= 0xffffffff)
		l.enc.UID(imap.UID(v))
	case 2:
		l.enc.Number64(int64(v))
	case 3:
		l.enc.ModSeq(v)
	}
	err := l.finish()
	nd.Reach("number-encoded")
	if err != nil {
		nd.Assert(nd.And(kind == 2, int64(v) < 0), "only-negative-number64-refused")
		return
	}
	dec := l.decoder()
	switch kind {
	case 0:
		var got uint32
		nd.Assert(dec.ExpectNumber(&got), "number-decodes")
		nd.Assert(uint64(got) == v, "number-roundtrip-equal")
	case 1:
		var got imap.UID
		nd.Assert(dec.ExpectUID(&got), "uid-decodes")
		nd.Assert(uint64(got) == v, "uid-roundtrip-equal")
	case 2:
		var got int64
		nd.Assert(dec.ExpectNumber64(&got), "number64-decodes")
		nd.Assert(uint64(got) == v, "number64-roundtrip-equal")
	case 3:
		var got uint64
		nd.Assert(dec.ExpectModSeq(&got), "modseq-decodes")
		nd.Assert(got == v, "modseq-roundtrip-equal")
	}
	c01tail(dec, "number")
}

// VerifC01NumSet: canonical sets of <= 2 ranges (both kinds), the empty set, and "$".
func VerifC01NumSet() {
	k := nd.Concretize(nd.Choice(3))
	uid := nd.Bool()
	w := c01windows[nd.Param("win")]
	// canonical set built directly (insertion is C15's subject): static ranges in the
	// window, sorted with a gap, optionally a trailing "n:*" or "*"
	seq := make(imap.SeqSet, k)
	var prev uint32
	for i := 0; i < k; i++ {
		a, b := nd.Uint32(), nd.Uint32()
		last := i == k-1
		nd.Assume(nd.Or(nd.And(uint64(a) >= w[0], uint64(a) <= w[1]), nd.And(last, a == 0)))
		nd.Assume(nd.Or(nd.And(uint64(b) >= w[0], uint64(b) <= w[1]), nd.And(last, b == 0)))
		nd.Assume(nd.Or(b == 0, nd.And(a != 0, a <= b)))
		nd.Assume(nd.Implies(a == 0, b == 0))
		if i > 0 {
			nd.Assume(nd.Or(a == 0, a > prev+1))
		}
		nd.Assume(nd.Implies(!last, b != 0xffffffff))
		prev = b
		seq[i] = imap.SeqRange{Start: a, Stop: b}
	}
	var set imap.NumSet = seq
	if uid {
		u := make(imap.UIDSet, len(seq))
		for i, r := range seq {
			u[i] = imap.UIDRange{Start: imap.UID(r.Start), Stop: imap.UID(r.Stop)}
		}
		set = u
		if k == 0 && nd.Bool() {
			set = imap.SearchRes()
		}
	}
	l := c01encoder()
	l.enc.NumSet(set)
	err := l.finish()
	nd.Reach("numset-encoded")
	if k == 0 && !imap.IsSearchRes(set) {
		nd.Assert(err != nil, "empty-set-refused")
		return
	}
	nd.Assert(err == nil, "nonempty-set-representable")
	if err != nil {
		return
	}
	dec := l.decoder()
	kind := imapwire.NumKindSeq
	if uid {
		kind = imapwire.NumKindUID
	}
	var got imap.NumSet
	nd.Assert(dec.ExpectNumSet(kind, &got), "numset-decodes")
	if got == nil {
		return
	}
	if imap.IsSearchRes(set) {
		nd.Assert(imap.IsSearchRes(got), "searchres-roundtrip")
	} else {
		nd.Assert(!imap.IsSearchRes(got), "plain-set-is-not-searchres")
		var back []imap.SeqRange
		switch g := got.(type) {
		case imap.SeqSet:
			nd.Assert(!uid, "numset-kind-seq")
			back = g
		case imap.UIDSet:
			nd.Assert(uid, "numset-kind-uid")
			for _, r := range g {
				back = append(back, imap.SeqRange{Start: uint32(r.Start), Stop: uint32(r.Stop)})
			}
		}
		nd.Assert(len(back) == len(seq), "numset-same-length")
		if len(back) == len(seq) {
			for i := range seq {
				nd.Assert(nd.And(back[i].Start == seq[i].Start, back[i].Stop == seq[i].Stop), "numset-roundtrip-equal")
			}
		}
	}
	c01tail(dec, "numset")
}

// c01tree: a list shape (items are atoms or nested lists), chosen by nd.
type c01tree struct {
	atom string
	kids []*c01tree
	list bool
}

func c01shape(depth, width int) *c01tree {
	t := &c01tree{list: true}
	n := nd.Concretize(nd.Choice(width + 1))
	for i := 0; i < n; i++ {
		if depth > 1 && nd.Bool() {
			t.kids = append(t.kids, c01shape(depth-1, width))
		} else {
			c := nd.Byte()
			nd.Assume(imapwire.IsAtomChar(c))
			t.kids = append(t.kids, &c01tree{atom: string([]byte{c})})
		}
	}
	return t
}

func c01write(enc *imapwire.Encoder, t *c01tree, begin bool) {
	if !t.list {
		enc.Atom(t.atom)
		return
	}
	if begin {
		le := enc.BeginList()
		for _, k := range t.kids {
			c01write(le.Item(), k, !begin)
		}
		le.End()
		return
	}
	enc.List(len(t.kids), func(i int) { c01write(enc, t.kids[i], !begin) })
}

func c01read(dec *imapwire.Decoder) (*c01tree, error) {
	t := &c01tree{list: true}
	err := dec.ExpectList(func() error {
		var s string
		if dec.Atom(&s) {
			t.kids = append(t.kids, &c01tree{atom: s})
			return nil
		}
		k, err := c01read(dec)
		if err != nil {
			return err
		}
		t.kids = append(t.kids, k)
		return nil
	})
	return t, err
}

func c01same(a, b *c01tree) bool {
	if a.list != b.list || len(a.kids) != len(b.kids) {
		return false
	}
	if !a.list {
		return a.atom == b.atom
	}
	ok := true
	for i := range a.kids {
		ok = nd.And(ok, c01same(a.kids[i], b.kids[i]))
	}
	return ok
}

// VerifC01List: nested lists up to depth x width, written with List and BeginList alternately.
func VerifC01List() {
	t := c01shape(nd.Param("depth"), nd.Param("width"))
	l := c01encoder()
	c01write(l.enc, t, nd.Bool())
	err := l.finish()
	nd.Reach("list-encoded")
	nd.Note("wire", l.buf.Bytes())
	nd.Assert(err == nil, "list-representable")
	dec := l.decoder()
	got, derr := c01read(dec)
	nd.Assert(derr == nil, "list-decodes")
	if derr != nil {
		return
	}
	nd.Assert(c01same(t, got), "list-roundtrip-equal")
	c01tail(dec, "list")
}

// VerifC01Depth: concrete boundary probe of the nesting cap (labelled as such: the
// depths are concrete, the solver has nothing to decide here).
func VerifC01Depth() {
	d := nd.Param("nest")
	l := &c01link{side: imapwire.ConnSideServer}
	l.enc = imapwire.NewEncoder(bufio.NewWriter(&l.buf), l.side)
	for i := 0; i < d; i++ {
		l.enc.Special('(')
	}
	l.enc.Atom("x")
	for i := 0; i < d; i++ {
		l.enc.Special(')')
	}
	err := l.finish()
	nd.Assert(err == nil, "deep-list-written")
	dec := l.decoder()
	depth := 0
	var rd func() error
	rd = func() error {
		return dec.ExpectList(func() error {
			var s string
			if dec.Atom(&s) {
				return nil
			}
			depth++
			return rd()
		})
	}
	derr := rd()
	nd.Reach("depth-probed")
	nd.Note("nest", d, derr == nil)
	nd.Assert((derr == nil) == (d < 1000), "nesting-cap-at-1000")
	if derr == nil {
		c01tail(dec, "deep-list")
	}
}
