package imapserver

// Harness for C20 (LIST wildcard matching). Injected by overlay; drives the real
// MatchList/matchList against a dynamic-programming reference matcher.

import (
	nd "github.com/emersion/go-imap/v2/internal/zzverif/nd"
)

func init() {
	nd.Register("VerifC20Match", VerifC20Match)
	nd.Register("VerifC20Table", VerifC20Table)
}

func c20eq(a, b string) bool {
	if len(a) != len(b) {
		return false
	}
	r := true
	for i := 0; i < len(a); i++ {
		r = nd.And(r, a[i] == b[i])
	}
	return r
}

// c20dp: '*' any sequence, '%' any sequence without the delimiter, other bytes literal.
// Branch-free on symbolic data (all connectives through nd.And/Or/IteBool).
func c20dp(name string, delim byte, hasDelim bool, pat string) bool {
	n, p := len(name), len(pat)
	dp := make([][]bool, p+1)
	for i := range dp {
		dp[i] = make([]bool, n+1)
	}
	dp[0][0] = true
	for i := 1; i <= p; i++ {
		c := pat[i-1]
		isStar := c == '*'
		isPct := c == '%'
		for j := 0; j <= n; j++ {
			lit := false
			star := dp[i-1][j]
			pct := dp[i-1][j]
			if j > 0 {
				lit = nd.And(dp[i-1][j-1], name[j-1] == c)
				star = nd.Or(star, dp[i][j-1])
				notDelim := true
				if hasDelim {
					notDelim = name[j-1] != delim
				}
				pct = nd.Or(pct, nd.And(dp[i][j-1], notDelim))
			}
			dp[i][j] = nd.IteBool(isStar, star, nd.IteBool(isPct, pct, lit))
		}
	}
	return dp[p][n]
}

// c20ref: documented/tested reference resolution composed with c20dp.
func c20ref(name string, delim byte, hasDelim bool, ref, pat string) bool {
	// relative pattern
	var rel bool
	if ref == "" {
		rel = c20dp(name, delim, hasDelim, pat)
	} else {
		withDelim := func(full string) bool {
			if len(name) < len(full) {
				return false
			}
			return nd.And(c20eq(name[:len(full)], full), c20dp(name[len(full):], delim, hasDelim, pat))
		}
		if hasDelim {
			endsWith := ref[len(ref)-1] == delim
			rel = nd.IteBool(endsWith, withDelim(ref), withDelim(ref+string([]byte{delim})))
		} else {
			rel = withDelim(ref)
		}
	}
	if hasDelim && len(pat) > 0 {
		abs := pat[0] == delim
		return nd.IteBool(abs, c20dp(name, delim, hasDelim, pat[1:]), rel)
	}
	return rel
}

// VerifC20Match: all names/patterns/references up to the configured lengths, all byte values.
func VerifC20Match() {
	n := nd.Concretize(nd.Choice(nd.Param("n") + 1))
	p := nd.Concretize(nd.Choice(nd.Param("p") + 1))
	r := nd.Concretize(nd.Choice(nd.Param("r") + 1))
	d := nd.Param("delim")
	name := nd.String(n)
	pat := nd.String(p)
	ref := nd.String(r)
	got := MatchList(name, rune(d), ref, pat)
	want := c20ref(name, byte(d), d != 0, ref, pat)
	nd.Reach("compared")
	nd.Note("in", name, ref, pat)
	nd.Note("out", got, want)
	nd.Assert(got == want, "matchlist-vs-reference")
}

var c20table = []struct {
	name, ref, pattern string
	result             bool
}{
	{name: "INBOX", pattern: "INBOX", result: true},
	{name: "INBOX", pattern: "Asuka", result: false},
	{name: "INBOX", pattern: "*", result: true},
	{name: "INBOX", pattern: "%", result: true},
	{name: "Neon Genesis Evangelion/Misato", pattern: "*", result: true},
	{name: "Neon Genesis Evangelion/Misato", pattern: "%", result: false},
	{name: "Neon Genesis Evangelion/Misato", pattern: "Neon Genesis Evangelion/*", result: true},
	{name: "Neon Genesis Evangelion/Misato", pattern: "Neon Genesis Evangelion/%", result: true},
	{name: "Neon Genesis Evangelion/Misato", pattern: "Neo* Evangelion/Misato", result: true},
	{name: "Neon Genesis Evangelion/Misato", pattern: "Neo% Evangelion/Misato", result: true},
	{name: "Neon Genesis Evangelion/Misato", pattern: "*Eva*/Misato", result: true},
	{name: "Neon Genesis Evangelion/Misato", pattern: "%Eva%/Misato", result: true},
	{name: "Neon Genesis Evangelion/Misato", pattern: "*X*/Misato", result: false},
	{name: "Neon Genesis Evangelion/Misato", pattern: "%X%/Misato", result: false},
	{name: "Neon Genesis Evangelion/Misato", pattern: "Neon Genesis Evangelion/Mi%o", result: true},
	{name: "Neon Genesis Evangelion/Misato", pattern: "Neon Genesis Evangelion/Mi%too", result: false},
	{name: "Misato/Misato", pattern: "Mis*to/Misato", result: true},
	{name: "Misato/Misato", pattern: "Mis*to", result: true},
	{name: "Misato/Misato/Misato", pattern: "Mis*to/Mis%to", result: true},
	{name: "Misato/Misato", pattern: "Mis**to/Misato", result: true},
	{name: "Misato/Misato", pattern: "Misat%/Misato", result: true},
	{name: "Misato/Misato", pattern: "Misat%Misato", result: false},
	{name: "Misato/Misato", ref: "Misato", pattern: "Misato", result: true},
	{name: "Misato/Misato", ref: "Misato/", pattern: "Misato", result: true},
	{name: "Misato/Misato", ref: "Shinji", pattern: "/Misato/*", result: true},
	{name: "Misato/Misato", ref: "Misato", pattern: "/Misato", result: false},
	{name: "Misato/Misato", ref: "Misato", pattern: "Shinji", result: false},
	{name: "Misato/Misato", ref: "Shinji", pattern: "Misato", result: false},
}

// VerifC20Table pins the oracle (and the engine) to the repository's own test table.
func VerifC20Table() {
	i := nd.Concretize(nd.Choice(len(c20table)))
	t := c20table[i]
	got := MatchList(t.name, '/', t.ref, t.pattern)
	want := c20ref(t.name, '/', true, t.ref, t.pattern)
	nd.Reach("row")
	nd.Note("row", i, got, want)
	nd.Assert(got == t.result, "table-impl")
	nd.Assert(want == t.result, "table-oracle")
}
