package imapclient

// C10 — every client command terminates, whatever happens to the connection.
// Injected by overlay into package imapclient.
//
// A real Client (imapclient.New: reader goroutine, channels, mutexes — all executed from
// their SSA under the deterministic cooperative scheduler) talks to a scripted server.
// The server's byte stream is cut at a symbolic offset with a symbolic fault kind; the
// client's writes fail from a symbolic offset on. The caller honours the documented
// contract (streaming commands are consumed or closed). A call that never returns shows
// up as a global deadlock of the scheduler (natively: the replay hangs and is killed).

import (
	"errors"
	"io"
	"net"
	"strings"
	"time"

	"github.com/emersion/go-imap/v2"
	"github.com/emersion/go-sasl"
	nd "github.com/emersion/go-imap/v2/internal/zzverif/nd"
)

func init() {
	nd.Register("VerifC10Cut", VerifC10Cut)
}

// c10conn: scripted server. Reply i is released once the client's output contains
// marker i (markers are looked for in order). The stream is cut at offset cut.
type c10conn struct {
	replies  []string
	markers  []string
	stream   []byte // concatenation of the released replies so far
	released int
	scanFrom int
	pos      int

	cut      int // the fault happens once pos reaches cut (-1: never)
	kind     int // 0 EOF, 1 read error, 2 stall until the read deadline fires, 3 stall until Close
	wcut     int // writes fail once len(out) >= wcut (-1: never)
	out      []byte
	closed   bool
	closeCh  chan struct{}
	stalled  bool
	deadline bool
	idleSpins int
	maxRead   int
}

var errC10Reset = errors.New("verif: connection reset by peer")

func (c *c10conn) release() {
	for c.released < len(c.replies) {
		m := c.markers[c.released]
		if m != "" {
			i := strings.Index(string(c.out[c.scanFrom:]), m)
			if i < 0 {
				return
			}
			c.scanFrom += i + len(m)
		}
		c.stream = append(c.stream, c.replies[c.released]...)
		c.released++
	}
}

func (c *c10conn) Read(p []byte) (int, error) {
	for {
		if c.closed {
			return 0, net.ErrClosed
		}
		c.release()
		limit := len(c.stream)
		if c.cut >= 0 && c.cut < limit {
			limit = c.cut
		}
		if c.pos < limit {
			if c.maxRead > 0 && len(p) > c.maxRead {
				p = p[:c.maxRead]
			}
			n := copy(p, c.stream[c.pos:limit])
			c.pos += n
			return n, nil
		}
		if c.cut >= 0 && c.pos >= c.cut {
			switch c.kind {
			case 0:
				return 0, io.EOF
			case 1:
				return 0, errC10Reset
			case 2:
				// the peer is silent: the client's read deadline fires
				return 0, vcTimeout{}
			default:
				c.stalled = true
				<-c.closeCh
				return 0, net.ErrClosed
			}
		}
		// nothing to read yet: the client has to write first. If it never does, the
		// read deadline fires.
		if c.released >= len(c.replies) {
			return 0, vcTimeout{}
		}
		c.stalled = true
		time.Sleep(time.Millisecond)
		if c.idleSpins++; c.idleSpins > 300 {
			return 0, vcTimeout{}
		}
	}
}

func (c *c10conn) Write(p []byte) (int, error) {
	if c.closed {
		return 0, net.ErrClosed
	}
	c.idleSpins = 0
	if c.wcut >= 0 && len(c.out)+len(p) > c.wcut {
		n := c.wcut - len(c.out)
		if n < 0 {
			n = 0
		}
		c.out = append(c.out, p[:n]...)
		return n, errC10Reset
	}
	c.out = append(c.out, p...)
	return len(p), nil
}

func (c *c10conn) Close() error {
	if c.closed {
		return net.ErrClosed
	}
	c.closed = true
	close(c.closeCh)
	return nil
}
func (c *c10conn) LocalAddr() net.Addr                { return vcAddr{} }
func (c *c10conn) RemoteAddr() net.Addr               { return vcAddr{} }
func (c *c10conn) SetDeadline(t time.Time) error      { return nil }
func (c *c10conn) SetReadDeadline(t time.Time) error  { return nil }
func (c *c10conn) SetWriteDeadline(t time.Time) error { return nil }

// one step of a transcript: the server reply (released by marker) and what the caller does
type c10step struct {
	marker string
	reply  string
	// (a marker starting with '!' says that the reply does not contain the completion of
	// all of the step's commands: the step must report an error wherever the stream is cut)
	// tagged: the reply's final line is the tagged completion of the command issued by do
	do func(c *Client) error
}

const c10greet = "* OK [CAPABILITY IMAP4rev1 IDLE MOVE UIDPLUS AUTH=PLAIN] hi\r\n"

// transcripts: index 0 is the greeting (no caller action)
func c10transcript(ti int) []c10step {
	login := c10step{"T1 LOGIN", "T1 OK [CAPABILITY IMAP4rev1 IDLE MOVE UIDPLUS] in\r\n", func(c *Client) error { return c.Login("u", "p").Wait() }}
	sel := c10step{"T2 SELECT", "* 3 EXISTS\r\n* FLAGS (\\Seen)\r\n* OK [UIDVALIDITY 1] x\r\nT2 OK [READ-WRITE] sel\r\n", func(c *Client) error {
		_, err := c.Select("INBOX", nil).Wait()
		return err
	}}
	switch ti {
	case 0: // FETCH with a body literal consumed through Next / LiteralReader
		return []c10step{login, sel,
			{"T3 FETCH", "* 1 FETCH (UID 7 FLAGS (\\Seen) BODY[] {5}\r\nhello)\r\n* 2 FETCH (FLAGS () BODY[] {3}\r\nabc UID 8)\r\nT3 OK done\r\n", func(c *Client) error {
				cmd := c.Fetch(imap.SeqSetNum(1, 2), &imap.FetchOptions{Flags: true, UID: true, BodySection: []*imap.FetchItemBodySection{{}}})
				for {
					msg := cmd.Next()
					if msg == nil {
						break
					}
					for {
						item := msg.Next()
						if item == nil {
							break
						}
						if bs, ok := item.(FetchItemDataBodySection); ok && bs.Literal != nil {
							io.Copy(io.Discard, bs.Literal)
						}
					}
				}
				return cmd.Close()
			}},
			{"T4 LOGOUT", "* BYE bye\r\nT4 OK out\r\n", func(c *Client) error { return c.Logout().Wait() }}}
	case 1: // LIST, STATUS, EXPUNGE, FETCH collected
		return []c10step{login, sel,
			{"T3 LIST", "* LIST () \"/\" a\r\n* LIST (\\Noselect) \"/\" \"b c\"\r\nT3 OK l\r\n", func(c *Client) error {
				_, err := c.List("", "*", nil).Collect()
				return err
			}},
			{"T4 EXPUNGE", "* 2 EXPUNGE\r\n* 1 EXPUNGE\r\nT4 OK e\r\n", func(c *Client) error {
				_, err := c.Expunge().Collect()
				return err
			}},
			{"T5 FETCH", "* 1 FETCH (ENVELOPE (NIL \"s\" NIL NIL NIL NIL NIL NIL NIL NIL) RFC822.SIZE 5)\r\nT5 OK f\r\n", func(c *Client) error {
				_, err := c.Fetch(imap.SeqSetNum(1), &imap.FetchOptions{Envelope: true, RFC822Size: true}).Collect()
				return err
			}}}
	case 2: // APPEND with a synchronising literal, then SEARCH
		return []c10step{login,
			{"{5}\r\n", "+ go\r\n", nil},
			{"hello\r\n", "T2 OK [APPENDUID 1 9] app\r\n", func(c *Client) error {
				cmd := c.Append("m", 5, nil)
				cmd.Write([]byte("hello"))
				cmd.Close()
				_, err := cmd.Wait()
				return err
			}},
			sel2("T3"),
			{"T4 SEARCH", "* SEARCH 1 2\r\nT4 OK s\r\n", func(c *Client) error {
				_, err := c.Search(&imap.SearchCriteria{}, nil).Wait()
				return err
			}}}
	case 3: // IDLE ... DONE, then NOOP
		return []c10step{login, sel,
			{"T3 IDLE", "+ idling\r\n* 4 EXISTS\r\n", nil},
			{"DONE\r\n", "T3 OK idle\r\n", func(c *Client) error {
				cmd, err := c.Idle()
				if err != nil {
					return err
				}
				time.Sleep(2 * time.Millisecond)
				if err := cmd.Close(); err != nil {
					return err
				}
				return cmd.Wait()
			}},
			{"T4 NOOP", "T4 OK n\r\n", func(c *Client) error { return c.Noop().Wait() }}}
	case 4: // two pipelined commands, answered in order; then MOVE and COPY
		return []c10step{login, sel,
			{"T4 STATUS", "* STATUS a (MESSAGES 1)\r\nT3 OK n\r\nT4 OK s\r\n", func(c *Client) error {
				n := c.Noop()
				s := c.Status("a", &imap.StatusOptions{NumMessages: true})
				err1 := n.Wait()
				_, err2 := s.Wait()
				if err1 != nil {
					return err1
				}
				return err2
			}},
			{"T5 MOVE", "* OK [COPYUID 1 1 5] m\r\n* 1 EXPUNGE\r\nT5 OK mv\r\n", func(c *Client) error {
				_, err := c.Move(imap.SeqSetNum(1), "a").Wait()
				return err
			}}}
	case 7: // one FETCH response with more data items than the hand-off buffer holds
		many := "* 1 FETCH (UID 7"
		for i := 0; i < 34; i++ {
			many += " FLAGS (\\Seen)"
		}
		many += " BODY[] {3}\r\nabc RFC822.SIZE 3)\r\n"
		return []c10step{login, sel,
			{"T3 FETCH", many + "* 2 FETCH (UID 8)\r\nT3 OK done\r\n", func(c *Client) error {
				_, err := c.Fetch(imap.SeqSetNum(1, 2), &imap.FetchOptions{Flags: true, UID: true, BodySection: []*imap.FetchItemBodySection{{}}}).Collect()
				return err
			}},
			{"T4 NOOP", "T4 OK n\r\n", func(c *Client) error { return c.Noop().Wait() }}}
	case 8: // NOOP pipelined behind LOGOUT: the server says BYE, completes LOGOUT and hangs up
		return []c10step{login,
			{"!T3 NOOP", "* BYE bye\r\nT2 OK out\r\n", func(c *Client) error {
				out := c.Logout()
				n := c.Noop()
				out.Wait()
				return n.Wait() // NOOP's completion is never sent
			}}}
	case 6: // AUTHENTICATE PLAIN without SASL-IR (empty challenge, then the response), NOOP
		return []c10step{
			{"T1 AUTHENTICATE PLAIN\r\n", "+ \r\n", nil},
			{"AHUAcA==\r\n", "T1 OK [CAPABILITY IMAP4rev1 IDLE] in\r\n", func(c *Client) error { return c.Authenticate(sasl.NewPlainClient("", "u", "p")) }},
			{"T2 NOOP", "T2 OK n\r\n", func(c *Client) error { return c.Noop().Wait() }}}
	default: // LOGIN with a literal password (continuation), STORE closed early, CLOSE
		return []c10step{
			{"T1 LOGIN u {2}\r\n", "+ ok\r\n", nil},
			{"p\xff\r\n", "T1 OK [CAPABILITY IMAP4rev1 IDLE] in\r\n", func(c *Client) error { return c.Login("u", "p\xff").Wait() }},
			sel,
			{"T3 STORE", "* 1 FETCH (FLAGS (\\Deleted))\r\nT3 OK st\r\n", func(c *Client) error {
				return c.Store(imap.SeqSetNum(1), &imap.StoreFlags{Op: imap.StoreFlagsAdd, Flags: []imap.Flag{imap.FlagDeleted}}, nil).Close()
			}},
			{"T4 CLOSE", "T4 OK cl\r\n", func(c *Client) error { return c.UnselectAndExpunge().Wait() }}}
	}
}

func sel2(tag string) c10step {
	return c10step{tag + " SELECT", "* 1 EXISTS\r\n" + tag + " OK [READ-WRITE] sel\r\n", func(c *Client) error {
		_, err := c.Select("INBOX", nil).Wait()
		return err
	}}
}

// VerifC10Cut: param t = transcript; the cut offset, fault kind and write-failure offset
// are symbolic.
func VerifC10Cut() {
	steps := c10transcript(nd.Param("t"))
	vc := &c10conn{closeCh: make(chan struct{}), cut: -1, wcut: -1, maxRead: nd.Param("chunk")}
	vc.replies = append(vc.replies, c10greet)
	vc.markers = append(vc.markers, "")
	total := len(c10greet)
	var ends []int // end offset (in the server stream) of each step's reply
	for _, s := range steps {
		vc.replies = append(vc.replies, s.reply)
		vc.markers = append(vc.markers, strings.TrimPrefix(s.marker, "!"))
		total += len(s.reply)
		ends = append(ends, total)
	}
	mode := nd.Param("mode")
	if mode == 0 {
		// the server side is cut
		vc.cut = nd.Concretize(nd.Choice(total + 1))
		vc.kind = nd.Concretize(nd.Choice(4))
	} else {
		// the client's writes start failing
		vc.wcut = nd.Concretize(nd.Choice(nd.Param("wmax")))
	}
	c := New(vc, nil)
	// the caller that closes the client when the connection stalls for good
	watchdogDone := make(chan struct{})
	stopWatch := make(chan struct{})
	if vc.kind == 3 {
		go func() {
			defer nd.Recover()
			defer close(watchdogDone)
			for i := 0; i < 4000; i++ {
				select {
				case <-stopWatch:
					return
				default:
				}
				if vc.stalled && vc.cut >= 0 && vc.pos >= vc.cut {
					c.Close()
					return
				}
				time.Sleep(time.Millisecond)
			}
		}()
	} else {
		close(watchdogDone)
	}
	errs := make([]error, len(steps))
	for i, s := range steps {
		if s.do == nil {
			continue
		}
		errs[i] = s.do(c)
		nd.Reach("step-returned")
	}
	close(stopWatch)
	c.Close()
	<-watchdogDone
	nd.Reach("closed")
	// the reader has exited
	select {
	case <-c.decCh:
	default:
		nd.Fail("reader-goroutine-still-running-after-close")
	}
	for i := 0; i < 50 && nd.Goroutines() > 0; i++ {
		time.Sleep(time.Millisecond)
	}
	nd.Assert(nd.Goroutines() == 0, "goroutine-left-alive-after-close")
	// a command whose completion was not fully received reports an error
	if mode == 0 {
		for i, s := range steps {
			if s.do != nil && (ends[i] > vc.cut || strings.HasPrefix(s.marker, "!")) {
				nd.Assert(errs[i] != nil, "command-reports-success-although-its-completion-was-not-received")
			}
		}
	}
}
