package imapserver

// Harness for C04 (server command framing). The real serve() loop runs against a
// scripted peer that sends commands whose string arguments are quoted strings,
// synchronising literals or non-synchronising literals; literal payloads carry a window
// of symbolic bytes (all 256 values, so CRLF and command-like text are inside the space).

import (
	"io"
	"net"
	"strings"
	"time"

	"github.com/emersion/go-imap/v2"
	nd "github.com/emersion/go-imap/v2/internal/zzverif/nd"
)

func init() {
	nd.Register("VerifC04Frame", VerifC04Frame)
}

type c04part struct {
	text    string // plain command text
	lit     bool
	nonSync bool
	size    int64  // announced size
	limit   int64  // largest size the server may accept in this position
	payload []byte // octets actually sent for the literal
	granted bool   // (out) the server answered the header with a continuation request
	sent    bool   // (out) payload octets were put on the wire
}

type c04cmd struct {
	tag   string
	parts []*c04part
	// (out)
	abandoned bool // the peer gave up the command after a tagged refusal of a literal
}

// c04peer is the scripted client.
type c04peer struct {
	cmds     []*c04cmd
	hostile  bool // pipelines synchronising literal payloads without waiting
	abandon  bool // after the header of a synchronising literal the server must refuse, goes straight on to the next command
	maxRead  int
	ci, pi   int
	buf      []byte
	waiting  bool
	waitMark int
	out      []byte
	closed   int
	timeouts int
	contBad  int // continuation requests that answer nothing
	lastHdr  int // len(out) when the last synchronising header was sent
}

func c04hasLine(out []byte, pred func(string) bool) bool {
	lines, _ := vLines(out)
	for _, l := range lines {
		if pred(l) {
			return true
		}
	}
	return false
}

func (p *c04peer) fill() (blocked bool) {
	for len(p.buf) == 0 {
		if p.ci >= len(p.cmds) {
			return false
		}
		cmd := p.cmds[p.ci]
		if p.pi >= len(cmd.parts) {
			p.ci++
			p.pi = 0
			continue
		}
		part := cmd.parts[p.pi]
		if p.waiting {
			news := p.out[p.waitMark:]
			switch {
			case c04hasLine(news, func(l string) bool { return vHasPrefix(l, "+ ") || l == "+" }):
				part.granted = true
				part.sent = true
				p.waiting = false
				p.buf = append(p.buf, part.payload...)
				p.pi++
			case c04hasLine(news, func(l string) bool { return vHasPrefix(l, cmd.tag+" ") }):
				// refused: a well-behaved client does not send the payload nor the rest
				p.waiting = false
				cmd.abandoned = true
				p.ci++
				p.pi = 0
			default:
				return true // keep waiting for the server's verdict
			}
			continue
		}
		if !part.lit {
			p.buf = append(p.buf, part.text...)
			p.pi++
			continue
		}
		hdr := "{" + c04itoa(part.size)
		if part.nonSync {
			hdr += "+"
		}
		hdr += "}\r\n"
		p.buf = append(p.buf, hdr...)
		if p.abandon && !part.nonSync && part.size > part.limit {
			// the command ends here (the server has to refuse this literal): nothing of it
			// follows, the next command does
			cmd.abandoned = true
			p.ci++
			p.pi = 0
			continue
		}
		if part.nonSync || p.hostile {
			part.sent = true
			p.buf = append(p.buf, part.payload...)
			p.pi++
		} else {
			p.waiting = true
			p.waitMark = len(p.out)
		}
	}
	return false
}

func (p *c04peer) Read(b []byte) (int, error) {
	if p.closed > 0 {
		return 0, net.ErrClosed
	}
	if blocked := p.fill(); blocked {
		p.timeouts++
		return 0, vTimeout{}
	}
	if len(p.buf) == 0 {
		return 0, io.EOF
	}
	n := len(p.buf)
	if n > len(b) {
		n = len(b)
	}
	if p.maxRead > 0 && n > p.maxRead {
		n = p.maxRead
	}
	copy(b, p.buf[:n])
	p.buf = p.buf[n:]
	return n, nil
}

func (p *c04peer) Write(b []byte) (int, error) {
	if p.closed > 0 {
		return 0, net.ErrClosed
	}
	p.out = append(p.out, b...)
	return len(b), nil
}
func (p *c04peer) Close() error                       { p.closed++; return nil }
func (p *c04peer) LocalAddr() net.Addr                { return vAddr{} }
func (p *c04peer) RemoteAddr() net.Addr               { return vAddr{} }
func (p *c04peer) SetDeadline(t time.Time) error      { return nil }
func (p *c04peer) SetReadDeadline(t time.Time) error  { return nil }
func (p *c04peer) SetWriteDeadline(t time.Time) error { return nil }

func c04itoa(n int64) string {
	if n == 0 {
		return "0"
	}
	var b []byte
	for n > 0 {
		b = append([]byte{byte('0' + n%10)}, b...)
		n /= 10
	}
	return string(b)
}

var c04sizes = []int64{0, 3, 4096, 4097, 5000, 104857601}

// c04arg builds one string argument in a nd-chosen form. want is the string the backend
// must receive if the command is executed.
func c04arg(kinds int) (parts []*c04part, want string, isLit bool) {
	form := nd.Concretize(nd.Choice(kinds))
	if form == 0 {
		return []*c04part{{text: "\"ab\""}}, "ab", false
	}
	size := c04sizes[nd.Concretize(nd.Choice(nd.Param("sizes")))]
	n := size
	if n > 5000 {
		n = 40 // oversize announcement: only a little is actually sent before the next commands
	}
	payload := make([]byte, n)
	for i := range payload {
		payload[i] = 'x'
	}
	if n >= 3 {
		// command-like filler ("x yxxx..."): if these octets are ever parsed as a command
		// line, the answer carries a tag the client never used
		payload[1] = ' '
		payload[2] = 'y'
	}
	w := nd.Param("window")
	for i := 0; i < w && i < len(payload); i++ {
		payload[i] = nd.Byte()
	}
	return []*c04part{{lit: true, nonSync: form == 2, size: size, limit: 4096, payload: payload}}, string(payload), true
}

// VerifC04Frame: template command with literal-capable arguments followed by two NOOPs.
func VerifC04Frame() {
	tmpl := nd.Concretize(nd.Choice(6))
	litPlus := nd.Bool()
	hostile := nd.Param("hostile") == 1
	abandon := nd.Param("hostile") == 2
	caps := imap.CapSet{imap.CapIMAP4rev1: {}}
	if litPlus {
		caps[imap.CapLiteralPlus] = struct{}{}
	}
	v := vNewServer(caps, true)
	first := &c04cmd{tag: "A1"}
	text := func(s string) { first.parts = append(first.parts, &c04part{text: s}) }
	var wantOp string
	hasJunk := false
	notKey := false
	var want []string
	var lits []*c04part
	addArg := func() {
		ps, w, isLit := c04arg(3)
		first.parts = append(first.parts, ps...)
		want = append(want, w)
		if isLit {
			lits = append(lits, ps[0])
		}
	}
	startState := imap.ConnStateAuthenticated
	switch tmpl {
	case 0:
		startState = imap.ConnStateNotAuthenticated
		wantOp = "Login"
		text("A1 LOGIN ")
		addArg()
		text(" ")
		addArg()
		text("\r\n")
	case 1:
		wantOp = "Select"
		text("A1 SELECT ")
		addArg()
		text("\r\n")
	case 2:
		wantOp = "Create"
		text("A1 CREATE ")
		addArg()
		text("\r\n")
	case 3:
		startState = imap.ConnStateSelected
		wantOp = "Search"
		text("A1 SEARCH TEXT ")
		addArg()
		text("\r\n")
	case 5:
		startState = imap.ConnStateSelected
		wantOp = "Search"
		notKey = true
		text("A1 SEARCH NOT TEXT ")
		addArg()
		text("\r\n")
	case 4:
		wantOp = "Append"
		text("A1 APPEND m ")
		ps, w, _ := c04arg(3)
		if !ps[0].lit {
			// APPEND data must be a literal
			ps = []*c04part{{lit: true, nonSync: true, size: 2, payload: []byte("ab")}}
			w = "ab"
		}
		ps[0].limit = 100 * 1024 * 1024
		if nd.Bool() {
			// the backend rejects the APPEND without reading the message (no such mailbox):
			// the literal is still framing
			v.sess.appendRejectEarly = true
			wantOp = "AppendRejected"
		}
		first.parts = append(first.parts, ps...)
		want = append(want, w)
		lits = append(lits, ps[0])
		text("\r\n")
	}
	// optional junk between the last argument and the end of the line: symbolic bytes (no
	// CR/LF/'{': those would start further lines or literals and change the framing) or
	// concrete command-like text
	nj := nd.Concretize(nd.Choice(nd.Param("junk") + 1 + 3*nd.Param("cjunk")))
	if nj > 0 {
		var junk []byte
		switch {
		case nj == nd.Param("junk")+1:
			junk = []byte("x y")
		case nj == nd.Param("junk")+2:
			junk = []byte(" Z7 NOOP")
		case nj == nd.Param("junk")+3:
			// a zero-length non-synchronising literal inside the junk: the command line
			// continues after its header, so "Z7 NOOP" is still part of command A1
			junk = []byte(" {0+}\r\nZ7 NOOP")
		default:
			junk = make([]byte, nj)
			for i := range junk {
				junk[i] = nd.Byte()
				nd.Assume(junk[i] != '\r')
				nd.Assume(junk[i] != '\n')
				nd.Assume(junk[i] != '{')
			}
		}
		last := first.parts[len(first.parts)-1]
		last.text = string(junk) + last.text
		hasJunk = true
	}
	// "in every connection state": the same command line is also sent in the states in
	// which the command is not permitted (it must then be refused as a whole: its literals
	// are still framing, never commands)
	if nd.Param("states") == 1 {
		startState = []imap.ConnState{imap.ConnStateNotAuthenticated, imap.ConnStateAuthenticated, imap.ConnStateSelected}[nd.Concretize(nd.Choice(3))]
	}
	peer := &c04peer{hostile: hostile, abandon: abandon}
	if nd.Bool() {
		peer.maxRead = 1
	}
	peer.cmds = []*c04cmd{first,
		{tag: "Z8", parts: []*c04part{{text: "Z8 NOOP\r\n"}}},
		{tag: "Z9", parts: []*c04part{{text: "Z9 NOOP\r\n"}}}}
	v.preAuth = startState != imap.ConnStateNotAuthenticated
	sel := startState == imap.ConnStateSelected
	c := newConn(peer, v.srv)
	if sel {
		// reach the selected state through a real SELECT first
		peer.cmds = append([]*c04cmd{{tag: "S0", parts: []*c04part{{text: "S0 SELECT m\r\n"}}}}, peer.cmds...)
	}
	c.serve()
	nd.Reach("framed")
	out := peer.out
	lines, rest := vLines(out)
	nd.Note("tmpl", tmpl, litPlus, hostile, peer.maxRead, peer.timeouts, peer.closed)
	for _, pt := range first.parts {
		if pt.lit {
			nd.Note("lit", pt.nonSync, int(pt.size), pt.granted, pt.sent, string(pt.payload[:c04min(len(pt.payload), 6)]))
		} else {
			nd.Note("text", pt.text)
		}
	}
	nd.Note("out", string(out))

	// the server's output is whole lines, each untagged, a continuation, or one of our tags
	nd.Assert(rest == "", "output-whole-lines")
	tags := map[string]int{}
	var order []string
	conts := 0
	for _, l := range lines {
		switch {
		case vHasPrefix(l, "* "):
		case vHasPrefix(l, "+ ") || l == "+":
			conts++
		default:
			t := l
			if i := strings.IndexByte(l, ' '); i > 0 {
				t = l[:i]
			}
			known := t == "A1" || t == "Z8" || t == "Z9" || t == "S0"
			if !hostile {
				nd.Assert(known, "tagged-line-with-a-tag-the-client-never-used")
			}
			if known {
				tags[t]++
				order = append(order, t)
			}
		}
	}
	nd.Assert(v.log.panics == 0, "no-panic")

	// continuation requests: only for synchronising literals the server accepts
	okConts := 0
	for _, lt := range lits {
		limit := int64(4096)
		if tmpl == 4 {
			limit = 100 * 1024 * 1024
		}
		if lt.granted {
			okConts++
			nd.Assert(!lt.nonSync, "continuation-for-nonsync-literal")
			nd.Assert(lt.size <= limit, "continuation-for-oversize-literal")
		}
	}
	if !hostile {
		nd.Assert(conts == okConts, "continuation-request-answers-nothing")
	}

	refused := false
	for _, lt := range lits {
		limit := int64(4096)
		if tmpl == 4 {
			limit = 100 * 1024 * 1024
		}
		if lt.size > limit {
			refused = true
		}
		if tmpl == 4 && lt.nonSync && lt.size > 4096 && !litPlus {
			refused = true
		}
	}

	// backend: at most one operation for the template command, with the intended arguments
	var got []vCall
	skippedPrologue := false
	for _, o := range v.sess.ops() {
		if sel && !skippedPrologue && o.op == "Select" && o.s1 == "m" {
			skippedPrologue = true // the S0 SELECT m prologue
			continue
		}
		if o.op == "Unselect" {
			continue // implicit when a mailbox is re-selected or the connection ends
		}
		got = append(got, o)
	}
	for i, o := range got {
		if i > 0 || o.op != wantOp {
			nd.Note("op", o.op, o.s1, o.s2)
			nd.Fail("backend-operation-the-client-never-asked-for")
			continue
		}
		switch wantOp {
		case "Login":
			nd.Assert(o.s1 == want[0] && o.s2 == want[1], "login-arguments-taken-from-elsewhere")
		case "Select", "Create":
			nd.Assert(strings.EqualFold(want[0], "INBOX") || o.s1 == want[0] || !c04ascii(want[0]), "mailbox-argument-taken-from-elsewhere")
		case "Search":
			if notKey {
				nd.Assert(len(o.criteria.Not) == 1 && len(o.criteria.Not[0].Text) == 1 && o.criteria.Not[0].Text[0] == want[0], "search-not-key-dropped-or-altered")
			} else {
				nd.Assert(len(o.criteria.Text) == 1 && o.criteria.Text[0] == want[0], "search-argument-taken-from-elsewhere")
			}
		case "Append":
			nd.Assert(string(o.lit) == want[0], "append-payload-taken-from-elsewhere")
		}
	}
	_ = hasJunk
	if refused && !hostile {
		for _, o := range got {
			nd.Assert(o.op != wantOp, "refused-literal-but-command-executed")
		}
	}

	if hostile {
		return
	}
	// every complete command receives exactly one tagged completion, in order, unless the
	// server closed the connection first
	expect := []string{"A1", "Z8", "Z9"}
	if sel {
		expect = append([]string{"S0"}, expect...)
	}
	for _, t := range expect {
		nd.Assert(tags[t] <= 1, "command-answered-twice")
	}
	for i, t := range order {
		nd.Assert(i < len(expect) && expect[i] == t, "tagged-completions-out-of-order-or-skipped")
	}
	if len(order) < len(expect) {
		// "unless the server closes the connection first": tolerated only if the server
		// really gave up the connection, not if it silently swallowed a command
		nd.Assert(peer.closed > 0, "connection-not-closed-but-command-unanswered")
		nd.Reach("closed-early")
	} else {
		nd.Reach("all-answered")
	}
	// a command the server did execute must still be answered (the backend saw it: the
	// client must learn the outcome) unless the connection was lost
	if len(got) > 0 && got[0].op == wantOp {
		nd.Assert(tags["A1"] == 1 || peer.timeouts > 0, "executed-command-got-no-tagged-completion")
	}
}

func c04min(a, b int) int {
	if a < b {
		return a
	}
	return b
}

func c04ascii(s string) bool {
	for i := 0; i < len(s); i++ {
		if s[i] < 0x20 || s[i] > 0x7e || s[i] == '&' {
			return false
		}
	}
	return true
}
