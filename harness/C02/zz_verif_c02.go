package imapclient

// C02 — client commands reach the server backend with the caller's arguments intact.
// Injected by overlay into package imapclient.
//
// Two phases over the same bytes: (1) the real client command method runs on a directly
// constructed Client (capabilities / enabled extensions as configured) and writes into a
// scripted conn; the harness plays a server that grants every synchronising literal;
// (2) exactly those bytes are served by a real imapserver.Server (Serve + the real
// connection loop, parsers and handlers) whose backend is a recording session. What the
// session receives is compared, semantically, with what the caller passed.

import (
	"io"
	"net"
	"strings"
	"time"
	"unicode/utf8"

	"github.com/emersion/go-imap/v2"
	"github.com/emersion/go-imap/v2/imapserver"
	nd "github.com/emersion/go-imap/v2/internal/zzverif/nd"
)

func init() {
	nd.Register("VerifC02Strings", VerifC02Strings)
	nd.Register("VerifC02Copy", VerifC02Copy)
	nd.Register("VerifC02List", VerifC02List)
	nd.Register("VerifC02Fetch", VerifC02Fetch)
	nd.Register("VerifC02Store", VerifC02Store)
	nd.Register("VerifC02Search", VerifC02Search)
	nd.Register("VerifC02Append", VerifC02Append)
	nd.Register("VerifC02Misc", VerifC02Misc)
}

// ---------------------------------------------------------------------------
// recording backend

type c02call struct {
	op       string
	s1, s2   string
	strs     []string
	lit      []byte
	kind     imapserver.NumKind
	numSet   imap.NumSet
	criteria *imap.SearchCriteria
	sopts    *imap.SearchOptions
	fopts    *imap.FetchOptions
	flags    *imap.StoreFlags
	stopts   *imap.StoreOptions
	lopts    *imap.ListOptions
	statOpts *imap.StatusOptions
	selOpts  *imap.SelectOptions
	appOpts  *imap.AppendOptions
	creOpts  *imap.CreateOptions
	uids     *imap.UIDSet
}

type c02sess struct {
	calls  []c02call
	closed int
	// what the backend answers (C03); nil = a fixed default
	onFetch    func(w *imapserver.FetchWriter) error
	onList     func(w *imapserver.ListWriter) error
	onExpunge  func(w *imapserver.ExpungeWriter) error
	onMove     func(w *imapserver.MoveWriter) error
	selData    *imap.SelectData
	statusData *imap.StatusData
	searchData *imap.SearchData
	appendData *imap.AppendData
	copyData   *imap.CopyData
	nsData     *imap.NamespaceData
}

func (s *c02sess) rec(c c02call) { s.calls = append(s.calls, c) }

func (s *c02sess) Close() error { s.closed++; return nil }
func (s *c02sess) Login(u, p string) error {
	s.rec(c02call{op: "Login", s1: u, s2: p})
	return nil
}
func (s *c02sess) Select(mailbox string, options *imap.SelectOptions) (*imap.SelectData, error) {
	s.rec(c02call{op: "Select", s1: mailbox, selOpts: options})
	if s.selData != nil && mailbox != "sel" {
		return s.selData, nil
	}
	return &imap.SelectData{NumMessages: 3, UIDNext: 10, UIDValidity: 1}, nil
}
func (s *c02sess) Create(mailbox string, options *imap.CreateOptions) error {
	s.rec(c02call{op: "Create", s1: mailbox, creOpts: options})
	return nil
}
func (s *c02sess) Delete(mailbox string) error {
	s.rec(c02call{op: "Delete", s1: mailbox})
	return nil
}
func (s *c02sess) Rename(mailbox, newName string) error {
	s.rec(c02call{op: "Rename", s1: mailbox, s2: newName})
	return nil
}
func (s *c02sess) Subscribe(mailbox string) error {
	s.rec(c02call{op: "Subscribe", s1: mailbox})
	return nil
}
func (s *c02sess) Unsubscribe(mailbox string) error {
	s.rec(c02call{op: "Unsubscribe", s1: mailbox})
	return nil
}
func (s *c02sess) List(w *imapserver.ListWriter, ref string, patterns []string, options *imap.ListOptions) error {
	s.rec(c02call{op: "List", s1: ref, strs: patterns, lopts: options})
	if s.onList != nil {
		return s.onList(w)
	}
	return nil
}
func (s *c02sess) Status(mailbox string, options *imap.StatusOptions) (*imap.StatusData, error) {
	s.rec(c02call{op: "Status", s1: mailbox, statOpts: options})
	if s.statusData != nil {
		return s.statusData, nil
	}
	n, sz := uint32(1), int64(2)
	return &imap.StatusData{Mailbox: mailbox, NumMessages: &n, UIDNext: 5, UIDValidity: 6, NumUnseen: &n, NumDeleted: &n, Size: &sz}, nil
}
func (s *c02sess) Append(mailbox string, r imap.LiteralReader, options *imap.AppendOptions) (*imap.AppendData, error) {
	var lit []byte
	buf := make([]byte, 64)
	for {
		n, err := r.Read(buf)
		lit = append(lit, buf[:n]...)
		if err != nil {
			break
		}
	}
	s.rec(c02call{op: "Append", s1: mailbox, lit: lit, appOpts: options})
	if s.appendData != nil {
		return s.appendData, nil
	}
	return &imap.AppendData{}, nil
}
func (s *c02sess) Poll(w *imapserver.UpdateWriter, allowExpunge bool) error { return nil }
func (s *c02sess) Idle(w *imapserver.UpdateWriter, stop <-chan struct{}) error {
	<-stop
	return nil
}
func (s *c02sess) Unselect() error { return nil }
func (s *c02sess) Expunge(w *imapserver.ExpungeWriter, uids *imap.UIDSet) error {
	s.rec(c02call{op: "Expunge", uids: uids})
	if s.onExpunge != nil {
		return s.onExpunge(w)
	}
	return nil
}
func (s *c02sess) Search(kind imapserver.NumKind, criteria *imap.SearchCriteria, options *imap.SearchOptions) (*imap.SearchData, error) {
	s.rec(c02call{op: "Search", kind: kind, criteria: criteria, sopts: options})
	if s.searchData != nil {
		return s.searchData, nil
	}
	if kind == imapserver.NumKindUID {
		return &imap.SearchData{All: imap.UIDSet(nil), UID: true}, nil
	}
	return &imap.SearchData{All: imap.SeqSet(nil)}, nil
}
func (s *c02sess) Fetch(w *imapserver.FetchWriter, numSet imap.NumSet, options *imap.FetchOptions) error {
	s.rec(c02call{op: "Fetch", numSet: numSet, fopts: options})
	if s.onFetch != nil {
		return s.onFetch(w)
	}
	return nil
}
func (s *c02sess) Store(w *imapserver.FetchWriter, numSet imap.NumSet, flags *imap.StoreFlags, options *imap.StoreOptions) error {
	s.rec(c02call{op: "Store", numSet: numSet, flags: flags, stopts: options})
	return nil
}
func (s *c02sess) Copy(numSet imap.NumSet, dest string) (*imap.CopyData, error) {
	s.rec(c02call{op: "Copy", numSet: numSet, s1: dest})
	return s.copyData, nil
}
func (s *c02sess) Namespace() (*imap.NamespaceData, error) {
	s.rec(c02call{op: "Namespace"})
	if s.nsData != nil {
		return s.nsData, nil
	}
	return &imap.NamespaceData{}, nil
}
func (s *c02sess) Move(w *imapserver.MoveWriter, numSet imap.NumSet, dest string) error {
	s.rec(c02call{op: "Move", numSet: numSet, s1: dest})
	if s.onMove != nil {
		return s.onMove(w)
	}
	return nil
}

type c02ln struct {
	conn net.Conn
	used bool
}

func (l *c02ln) Accept() (net.Conn, error) {
	if l.used {
		return nil, net.ErrClosed
	}
	l.used = true
	return l.conn, nil
}
func (l *c02ln) Close() error   { return nil }
func (l *c02ln) Addr() net.Addr { return vcAddr{} }

type c02log struct{ n int }

func (l *c02log) Printf(format string, args ...interface{}) { l.n++ }

// c02caps: server capability configuration. scfg 0 = IMAP4rev1 only, 1 = IMAP4rev1 +
// IMAP4rev2, 2 = IMAP4rev1 + LITERAL+; en 0 = nothing enabled, 1 = UTF8=ACCEPT enabled
// (then also advertised), 2 = IMAP4rev2 enabled (needs scfg 1).
func c02caps(scfg, en int) imap.CapSet {
	caps := imap.CapSet{imap.CapIMAP4rev1: {}, imap.CapMove: {}, imap.CapNamespace: {}, imap.CapUnselect: {}, imap.CapUIDPlus: {}, imap.CapESearch: {}, imap.CapSearchRes: {}, imap.CapEnable: {}, imap.CapListExtended: {}, imap.CapListStatus: {}, imap.CapBinary: {}}
	switch scfg {
	case 1:
		caps[imap.CapIMAP4rev2] = struct{}{}
	case 2:
		caps[imap.CapLiteralPlus] = struct{}{}
	}
	if en == 1 {
		caps[imap.CapUTF8Accept] = struct{}{}
	}
	return caps
}

// c02cfg decodes the configuration parameter: (server capabilities, enabled extension).
func c02cfg() (scfg, en int) {
	p := [][2]int{{0, 0}, {1, 2}, {2, 0}, {0, 1}, {1, 0}, {1, 1}}[nd.Param("cfg")]
	return p[0], p[1]
}

// c02client builds the client side in the given configuration. Its view of the server's
// capabilities is what the real server advertises in its greeting for that configuration
// (fed through the real greeting handler).
func c02client(scfg, en int) (*Client, *vcConn) { return c02clientState(scfg, en, 1) }

func c02clientState(scfg, en, state int) (*Client, *vcConn) {
	gstate := 1
	if state == 0 {
		gstate = 0
	}
	_, out := c02serveWith(&c02sess{}, scfg, en, gstate, nil)
	eol := strings.Index(string(out), "\r\n")
	nd.Assert(eol > 0, "server-sent-no-greeting")
	vc := &vcConn{silent: true}
	c := vcDirect(vc, imap.ConnStateNone, nil)
	c.greetingRecv = false
	c.caps = nil
	vc.in = append(vc.in, out[:eol+2]...)
	err := c.readResponse()
	nd.Assert(err == nil && c.caps != nil, "client-rejects-the-server-greeting")
	vc.in, vc.pos = nil, 0
	if state > 0 {
		// (the prologue of the server run selects "sel")
		c.state = imap.ConnStateSelected
		c.mailbox = &SelectedMailbox{Name: "sel", NumMessages: 3}
	}
	switch en {
	case 1:
		c.enabled[imap.CapUTF8Accept] = struct{}{}
	case 2:
		c.enabled[imap.CapIMAP4rev2] = struct{}{}
	}
	return c, vc
}

func c02isDone(ch chan struct{}) bool {
	select {
	case <-ch:
		return true
	default:
		return false
	}
}

func c02pendingCont(c *Client) int {
	c.mutex.Lock()
	n := len(c.contReqs)
	c.mutex.Unlock()
	return n
}

// c02write runs a client command and plays a server that grants every continuation
// request; it returns the bytes the client wrote.
func c02write(c *Client, vc *vcConn, run func()) []byte {
	done := make(chan struct{})
	go func() {
		defer nd.Recover()
		defer close(done)
		run()
	}()
	for round := 0; round < 8; round++ {
		for i := 0; i < 400 && !c02isDone(done) && c02pendingCont(c) == 0; i++ {
			time.Sleep(time.Millisecond)
		}
		if c02isDone(done) {
			break
		}
		for i := 0; i < 3; i++ {
			time.Sleep(time.Millisecond)
		}
		vc.in = append(vc.in, "+ go ahead\r\n"...)
		err := c.readResponse()
		nd.Assert(err == nil, "client-rejects-continuation-request")
	}
	nd.Assert(c02isDone(done), "command-did-not-finish-writing")
	return vc.out
}

// c02serve feeds the client's bytes to a real server and returns what the backend saw.
// state: 0 = not authenticated, 1 = authenticated, 2 = selected.
func c02serve(scfg, en, state int, wire []byte) (*c02sess, []byte) {
	return c02serveWith(&c02sess{}, scfg, en, state, wire)
}

func c02serveWith(sess *c02sess, scfg, en, state int, wire []byte) (*c02sess, []byte) {
	srv := imapserver.New(&imapserver.Options{
		NewSession: func(conn *imapserver.Conn) (imapserver.Session, *imapserver.GreetingData, error) {
			return sess, &imapserver.GreetingData{PreAuth: state > 0}, nil
		},
		Caps:         c02caps(scfg, en),
		InsecureAuth: true,
		Logger:       &c02log{},
	})
	var in []byte
	switch en {
	case 1:
		in = append(in, "E0 ENABLE UTF8=ACCEPT\r\n"...)
	case 2:
		in = append(in, "E0 ENABLE IMAP4rev2\r\n"...)
	}
	if state == 2 {
		in = append(in, "S0 SELECT sel\r\n"...)
	}
	nPrologue := 0
	if state == 2 {
		nPrologue = 1
	}
	in = append(in, wire...)
	sc := &vcConn{in: in}
	srv.Serve(&c02ln{conn: sc})
	for i := 0; i < 2000 && sc.closed == 0; i++ {
		time.Sleep(time.Millisecond)
	}
	nd.Assert(sc.closed > 0, "server-did-not-finish")
	sess.calls = sess.calls[nPrologue:]
	return sess, sc.out
}

// c02tagged reports how the command tagged T1 was answered.
func c02tagged(out []byte) string {
	s := string(out)
	for _, line := range strings.Split(s, "\r\n") {
		if strings.HasPrefix(line, "T1 ") {
			f := strings.Fields(line)
			if len(f) > 1 {
				return f[1]
			}
		}
	}
	return ""
}

// ---------------------------------------------------------------------------
// argument generators and semantic comparison

func c02bytes(k int) string { return string(nd.Bytes(k)) }

// c02mailbox: a mailbox name of k symbolic bytes, valid UTF-8 (the API's contract).
func c02mailbox(k int) string {
	b := nd.Bytes(k)
	nd.Assume(utf8.Valid(b))
	return string(b)
}

func c02mboxEq(got, want string) bool {
	if strings.EqualFold(want, "INBOX") {
		return got == "INBOX"
	}
	return got == want
}

var c02windows = [][2]uint64{{1, 12}, {4294967288, 4294967295}, {0, 20}, {4090, 4100}, {9223372036854775800, 9223372036854775807}}

func c02num(w int) uint64 {
	v := nd.Uint64()
	nd.Assume(v >= c02windows[w][0])
	nd.Assume(v <= c02windows[w][1])
	return v
}

// c02set builds a number set: one range with windowed symbolic endpoints (optionally
// open-ended), optionally a second, concrete range in the middle of the number space.
func c02set(uid bool, w int) imap.NumSet {
	var ss imap.SeqSet
	var us imap.UIDSet
	a := uint32(c02num(w))
	b := uint32(c02num(w))
	if nd.Bool() {
		b = 0
	}
	extra := nd.Bool()
	if uid {
		us.AddRange(imap.UID(a), imap.UID(b))
		if extra {
			us.AddRange(1000, 2000)
		}
		return us
	}
	ss.AddRange(a, b)
	if extra {
		ss.AddRange(1000, 2000)
	}
	return ss
}

func c02setEq(got, want imap.NumSet) bool {
	switch w := want.(type) {
	case imap.SeqSet:
		g, ok := got.(imap.SeqSet)
		if !ok || len(g) != len(w) {
			return false
		}
		r := true
		for i := range w {
			r = nd.And(r, nd.And(g[i].Start == w[i].Start, g[i].Stop == w[i].Stop))
		}
		return r
	case imap.UIDSet:
		g, ok := got.(imap.UIDSet)
		if !ok || len(g) != len(w) {
			return false
		}
		r := true
		for i := range w {
			r = nd.And(r, nd.And(g[i].Start == w[i].Start, g[i].Stop == w[i].Stop))
		}
		return r
	}
	return false
}

var c02flagPool = []imap.Flag{imap.FlagSeen, imap.FlagDeleted, "\\answered", imap.FlagDraft, imap.FlagFlagged, "$Forwarded", "kw", "Draft"} // ("Draft" is a keyword, not the system flag)

func c02flags(max int) []imap.Flag {
	n := nd.Choice(max + 1)
	var l []imap.Flag
	for i := 0; i < n; i++ {
		l = append(l, c02flagPool[nd.Choice(len(c02flagPool))])
	}
	return l
}

// flag lists are compared as sets, case-insensitively (system flags are case-normalised)
func c02flagsEq(got, want []imap.Flag) bool {
	for _, w := range want {
		found := false
		for _, g := range got {
			if strings.EqualFold(string(g), string(w)) {
				found = true
			}
		}
		if !found {
			return false
		}
	}
	for _, g := range got {
		found := false
		for _, w := range want {
			if strings.EqualFold(string(g), string(w)) {
				found = true
			}
		}
		if !found {
			return false
		}
	}
	return true
}

func c02statusOpts() *imap.StatusOptions {
	return &imap.StatusOptions{NumMessages: nd.Bool(), UIDNext: nd.Bool(), UIDValidity: nd.Bool(), NumUnseen: nd.Bool(), NumDeleted: nd.Bool(), Size: nd.Bool()}
}

func c02statusEq(g, w *imap.StatusOptions) bool {
	if g == nil || w == nil {
		return g == nil && w == nil
	}
	return *g == *w
}

// ---------------------------------------------------------------------------
// entries

// VerifC02Strings: commands whose arguments are strings / mailbox names.
func VerifC02Strings() {
	scfg, en := c02cfg()
	k, cmd := nd.Param("k"), nd.Param("cmd")
	st0 := 1
	if cmd == 0 {
		st0 = 0
	}
	c, vc := c02clientState(scfg, en, st0)
	state := 1
	var run func()
	var check func(call c02call)
	op := ""
	switch cmd {
	case 0:
		state, op = 0, "Login"
		u, p := c02bytes(k), c02bytes(k)
		run = func() { c.Login(u, p) }
		check = func(call c02call) {
			nd.Assert(call.s1 == u, "login-username-altered")
			nd.Assert(call.s2 == p, "login-password-altered")
		}
	case 1:
		op = "Select"
		mb := c02mailbox(k)
		ro := nd.Bool()
		run = func() { c.Select(mb, &imap.SelectOptions{ReadOnly: ro}) }
		check = func(call c02call) {
			nd.Assert(c02mboxEq(call.s1, mb), "select-mailbox-altered")
			nd.Assert(call.selOpts != nil && call.selOpts.ReadOnly == ro, "select-read-only-mode-altered")
		}
	case 2:
		op = "Create"
		mb := c02mailbox(k)
		run = func() { c.Create(mb, nil) }
		check = func(call c02call) { nd.Assert(c02mboxEq(call.s1, mb), "create-mailbox-altered") }
	case 3:
		op = "Delete"
		mb := c02mailbox(k)
		run = func() { c.Delete(mb) }
		check = func(call c02call) { nd.Assert(c02mboxEq(call.s1, mb), "delete-mailbox-altered") }
	case 4:
		op = "Rename"
		a, b := c02mailbox(k), c02mailbox(k)
		run = func() { c.Rename(a, b) }
		check = func(call c02call) {
			nd.Assert(c02mboxEq(call.s1, a), "rename-source-altered")
			nd.Assert(c02mboxEq(call.s2, b), "rename-destination-altered")
		}
	case 5:
		op = "Subscribe"
		mb := c02mailbox(k)
		unsub := nd.Bool()
		if unsub {
			op = "Unsubscribe"
		}
		run = func() {
			if unsub {
				c.Unsubscribe(mb)
			} else {
				c.Subscribe(mb)
			}
		}
		check = func(call c02call) { nd.Assert(c02mboxEq(call.s1, mb), "subscribe-mailbox-altered") }
	case 6:
		op = "Status"
		mb := c02mailbox(k)
		opts := c02statusOpts()
		nd.Assume(opts.NumMessages || opts.UIDNext || opts.UIDValidity || opts.NumUnseen || opts.NumDeleted || opts.Size)
		run = func() { c.Status(mb, opts) }
		check = func(call c02call) {
			nd.Assert(c02mboxEq(call.s1, mb), "status-mailbox-altered")
			nd.Assert(c02statusEq(call.statOpts, opts), "status-items-altered")
		}
	case 7:
		state = 2
		uid := nd.Bool()
		move := nd.Bool()
		op = "Copy"
		if move {
			op = "Move"
		}
		set := c02set(uid, nd.Choice(2))
		mb := c02mailbox(k)
		run = func() {
			if move {
				c.Move(set, mb)
			} else {
				c.Copy(set, mb)
			}
		}
		check = func(call c02call) {
			nd.Assert(c02mboxEq(call.s1, mb), "copy-destination-altered")
			nd.Assert(c02setEq(call.numSet, set), "copy-message-set-altered")
		}
	default:
		panic("c02: unknown command")
	}
	wire := c02write(c, vc, run)
	sess, out := c02serve(scfg, en, state, wire)
	nd.Note("wire", wire)
	nd.Assert(len(sess.calls) == 1 && sess.calls[0].op == op, "backend-did-not-receive-exactly-the-operation")
	nd.Assert(c02tagged(out) == "OK", "command-not-completed-ok")
	check(sess.calls[0])
	nd.Reach("delivered")
}

// VerifC02List: LIST with reference, pattern and options.
func VerifC02List() {
	scfg, en := c02cfg()
	k := nd.Param("k")
	c, vc := c02client(scfg, en)
	var ref, pat string
	if nd.Param("opts") == 1 {
		// the option subsets are explored with concrete names (the names with nil options)
		ref, pat = "r", "p%"
	} else {
		ref = c02mailbox(nd.Param("kref"))
		pat = c02mailbox(k)
	}
	nd.Assume(len(pat) > 0)
	var opts *imap.ListOptions
	if nd.Param("opts") == 1 {
		opts = &imap.ListOptions{SelectSubscribed: nd.Bool(), SelectRemote: nd.Bool(), ReturnSubscribed: nd.Bool(), ReturnChildren: nd.Bool()}
		opts.SelectRecursiveMatch = nd.And(opts.SelectSubscribed, nd.Bool())
		if nd.Bool() {
			opts.ReturnStatus = c02statusOpts()
		}
	}
	wire := c02write(c, vc, func() { c.List(ref, pat, opts) })
	sess, out := c02serve(scfg, en, 1, wire)
	nd.Note("wire", wire)
	nd.Assert(len(sess.calls) == 1 && sess.calls[0].op == "List", "backend-did-not-receive-exactly-the-operation")
	nd.Assert(c02tagged(out) == "OK", "command-not-completed-ok")
	call := sess.calls[0]
	nd.Assert(c02mboxEq(call.s1, ref), "list-reference-altered")
	nd.Assert(len(call.strs) == 1 && c02mboxEq(call.strs[0], pat), "list-pattern-altered")
	want := imap.ListOptions{}
	if opts != nil {
		want = *opts
	}
	g := call.lopts
	nd.Assert(g != nil, "list-options-missing")
	nd.Assert(g.SelectSubscribed == want.SelectSubscribed && g.SelectRemote == want.SelectRemote && g.SelectRecursiveMatch == want.SelectRecursiveMatch, "list-select-options-altered")
	nd.Assert(g.ReturnSubscribed == want.ReturnSubscribed && g.ReturnChildren == want.ReturnChildren, "list-return-options-altered")
	nd.Assert(c02statusEq(g.ReturnStatus, want.ReturnStatus), "list-return-status-items-altered")
	nd.Reach("delivered")
}

var c02parts = [][]int{nil, {1}, {2, 1}, {12}}
var c02specs = []imap.PartSpecifier{imap.PartSpecifierNone, imap.PartSpecifierHeader, imap.PartSpecifierText, imap.PartSpecifierMIME}

func c02partial() *imap.SectionPartial {
	if !nd.Bool() {
		return nil
	}
	p := &imap.SectionPartial{Offset: int64(c02num(2 + nd.Choice(nd.Param("pw")))), Size: int64(c02num(2 + nd.Choice(nd.Param("pw"))))}
	nd.Assume(p.Size > 0)
	return p
}

func c02partEq(g, w []int) bool {
	if len(g) != len(w) {
		return false
	}
	for i := range w {
		if g[i] != w[i] {
			return false
		}
	}
	return true
}

func c02partialEq(g, w *imap.SectionPartial) bool {
	if g == nil || w == nil {
		return g == nil && w == nil
	}
	return nd.And(g.Offset == w.Offset, g.Size == w.Size)
}

func c02strsEq(g, w []string) bool {
	if len(g) != len(w) {
		return false
	}
	for i := range w {
		if g[i] != w[i] {
			return false
		}
	}
	return true
}

// VerifC02Fetch: FETCH / UID FETCH with every item combination of the bound.
func VerifC02Fetch() {
	scfg, en := c02cfg()
	k := nd.Param("k")
	c, vc := c02client(scfg, en)
	uid := nd.Bool()
	sect := nd.Param("sect")
	var set imap.NumSet
	o := &imap.FetchOptions{}
	if sect == 8 {
		// the message set is the symbolic part, the item list is fixed
		set = c02set(uid, nd.Choice(2))
		o.Flags = true
		sect = 0
	} else {
		if uid {
			set = imap.UIDSetNum(2, 3, 4, 9)
		} else {
			set = imap.SeqSetNum(2, 3, 4, 9)
		}
		if sect == 0 {
			// every subset of the scalar items
			o = &imap.FetchOptions{Envelope: nd.Bool(), Flags: nd.Bool(), InternalDate: nd.Bool(), RFC822Size: nd.Bool(), UID: nd.Bool()}
			switch nd.Choice(3) {
			case 1:
				o.BodyStructure = &imap.FetchItemBodyStructure{}
			case 2:
				o.BodyStructure = &imap.FetchItemBodyStructure{Extended: true}
			}
		} else {
			// section items next to one fixed scalar item
			o.RFC822Size = nd.Bool()
		}
	}
	if sect&1 != 0 {
		bs := &imap.FetchItemBodySection{Peek: nd.Bool()}
		bs.Part = c02parts[nd.Choice(len(c02parts))]
		bs.Specifier = c02specs[nd.Choice(len(c02specs))]
		nd.Assume(bs.Specifier != imap.PartSpecifierMIME || len(bs.Part) > 0) // MIME needs a part
		if bs.Specifier == imap.PartSpecifierHeader {
			switch nd.Choice(3) {
			case 1:
				bs.HeaderFields = []string{c02bytes(k)}
			case 2:
				bs.HeaderFieldsNot = []string{"Subject", c02bytes(k)}
			}
		}
		bs.Partial = c02partial()
		o.BodySection = append(o.BodySection, bs)
	}
	if sect&2 != 0 {
		o.BodySection = append(o.BodySection, &imap.FetchItemBodySection{Specifier: imap.PartSpecifierText, Peek: true})
	}
	if sect&4 != 0 {
		o.BinarySection = append(o.BinarySection, &imap.FetchItemBinarySection{Part: c02parts[nd.Choice(len(c02parts))], Partial: c02partial(), Peek: nd.Bool()})
		if nd.Bool() {
			o.BinarySectionSize = append(o.BinarySectionSize, &imap.FetchItemBinarySectionSize{Part: c02parts[nd.Choice(len(c02parts))]})
		}
	}
	// an empty item list is not a valid FETCH
	nd.Assume(o.Envelope || o.Flags || o.InternalDate || o.RFC822Size || o.UID || uid || o.BodyStructure != nil || sect != 0)
	wire := c02write(c, vc, func() { c.Fetch(set, o) })
	sess, out := c02serve(scfg, en, 2, wire)
	nd.Note("wire", wire)
	nd.Assert(len(sess.calls) == 1 && sess.calls[0].op == "Fetch", "backend-did-not-receive-exactly-the-operation")
	nd.Assert(c02tagged(out) == "OK", "command-not-completed-ok")
	call := sess.calls[0]
	g := call.fopts
	nd.Assert(c02setEq(call.numSet, set), "fetch-message-set-altered")
	nd.Assert(g.Envelope == o.Envelope && g.Flags == o.Flags && g.InternalDate == o.InternalDate && g.RFC822Size == o.RFC822Size, "fetch-items-altered")
	nd.Assert(g.UID == (o.UID || uid), "fetch-uid-item-altered")
	nd.Assert((g.BodyStructure != nil) == (o.BodyStructure != nil), "fetch-bodystructure-item-dropped-or-invented")
	if g.BodyStructure != nil && o.BodyStructure != nil {
		nd.Assert(g.BodyStructure.Extended == o.BodyStructure.Extended, "fetch-bodystructure-extended-flag-altered")
	}
	nd.Assert(len(g.BodySection) == len(o.BodySection), "fetch-body-sections-dropped-or-invented")
	for i := range o.BodySection {
		if i >= len(g.BodySection) {
			break
		}
		gs, ws := g.BodySection[i], o.BodySection[i]
		nd.Assert(gs.Specifier == ws.Specifier && gs.Peek == ws.Peek, "fetch-body-section-specifier-or-peek-altered")
		nd.Assert(c02partEq(gs.Part, ws.Part), "fetch-body-section-part-altered")
		nd.Assert(c02strsEq(gs.HeaderFields, ws.HeaderFields), "fetch-body-section-header-fields-altered")
		nd.Assert(c02strsEq(gs.HeaderFieldsNot, ws.HeaderFieldsNot), "fetch-body-section-header-fields-not-altered")
		nd.Assert(c02partialEq(gs.Partial, ws.Partial), "fetch-body-section-partial-altered")
	}
	nd.Assert(len(g.BinarySection) == len(o.BinarySection) && len(g.BinarySectionSize) == len(o.BinarySectionSize), "fetch-binary-sections-dropped-or-invented")
	for i := range o.BinarySection {
		if i >= len(g.BinarySection) {
			break
		}
		gs, ws := g.BinarySection[i], o.BinarySection[i]
		nd.Assert(gs.Peek == ws.Peek && c02partEq(gs.Part, ws.Part), "fetch-binary-section-altered")
		nd.Assert(c02partialEq(gs.Partial, ws.Partial), "fetch-binary-section-partial-altered")
	}
	for i := range o.BinarySectionSize {
		if i < len(g.BinarySectionSize) {
			nd.Assert(c02partEq(g.BinarySectionSize[i].Part, o.BinarySectionSize[i].Part), "fetch-binary-size-part-altered")
		}
	}
	nd.Reach("delivered")
}

// VerifC02Store: STORE / UID STORE.
func VerifC02Store() {
	scfg, en := c02cfg()
	c, vc := c02client(scfg, en)
	uid := nd.Bool()
	// (message sets with symbolic endpoints are exercised by COPY/MOVE, FETCH and UID
	// EXPUNGE: the same Encoder.NumSet / ExpectNumSet pair)
	var set imap.NumSet
	if uid {
		var us imap.UIDSet
		us.AddRange(3, 0)
		us.AddNum(1)
		set = us
	} else {
		var ss imap.SeqSet
		ss.AddRange(4, 7)
		ss.AddNum(4294967295)
		set = ss
	}
	sf := &imap.StoreFlags{Op: []imap.StoreFlagsOp{imap.StoreFlagsSet, imap.StoreFlagsAdd, imap.StoreFlagsDel}[nd.Choice(3)], Silent: nd.Bool(), Flags: c02flags(2)}
	wire := c02write(c, vc, func() { c.Store(set, sf, nil) })
	sess, out := c02serve(scfg, en, 2, wire)
	nd.Note("wire", wire)
	nd.Assert(len(sess.calls) == 1 && sess.calls[0].op == "Store", "backend-did-not-receive-exactly-the-operation")
	nd.Assert(c02tagged(out) == "OK", "command-not-completed-ok")
	call := sess.calls[0]
	nd.Assert(c02setEq(call.numSet, set), "store-message-set-altered")
	nd.Assert(call.flags.Op == sf.Op, "store-mode-altered")
	nd.Assert(call.flags.Silent == sf.Silent, "store-silent-altered")
	nd.Assert(c02flagsEq(call.flags.Flags, sf.Flags), "store-flags-altered")
	nd.Reach("delivered")
}

var c02dates = []time.Time{
	time.Date(2024, 1, 4, 0, 0, 0, 0, time.UTC),
	time.Date(2024, 1, 5, 0, 0, 0, 0, time.UTC),
	time.Date(2023, 12, 31, 0, 0, 0, 0, time.UTC),
	time.Date(2024, 2, 29, 0, 0, 0, 0, time.UTC),
}

func c02date() time.Time { return c02dates[nd.Choice(len(c02dates))] }

func c02dateEq(g, w time.Time) bool {
	if w.IsZero() || g.IsZero() {
		return w.IsZero() && g.IsZero()
	}
	gy, gm, gd := g.Date()
	wy, wm, wd := w.Date()
	return gy == wy && gm == wm && gd == wd
}

// c02sub: a small sub-criteria for NOT / OR
func c02sub(k int) imap.SearchCriteria {
	switch nd.Choice(3) {
	case 0:
		return imap.SearchCriteria{Flag: []imap.Flag{c02flagPool[nd.Choice(len(c02flagPool))]}}
	case 1:
		return imap.SearchCriteria{Text: []string{c02bytes(k)}}
	default:
		return imap.SearchCriteria{Larger: int64(c02num(3))}
	}
}

func c02critEq(g, w *imap.SearchCriteria, label string) {
	nd.Assert(len(g.SeqNum) == len(w.SeqNum) && len(g.UID) == len(w.UID), label+"search-set-keys-dropped-or-invented")
	for i := range w.SeqNum {
		if i < len(g.SeqNum) {
			nd.Assert(c02setEq(g.SeqNum[i], w.SeqNum[i]), label+"search-sequence-set-altered")
		}
	}
	for i := range w.UID {
		if i < len(g.UID) {
			nd.Assert(c02setEq(g.UID[i], w.UID[i]), label+"search-uid-set-altered")
		}
	}
	nd.Assert(c02dateEq(g.Since, w.Since), label+"search-since-altered")
	nd.Assert(c02dateEq(g.Before, w.Before), label+"search-before-altered")
	nd.Assert(c02dateEq(g.SentSince, w.SentSince), label+"search-sentsince-altered")
	nd.Assert(c02dateEq(g.SentBefore, w.SentBefore), label+"search-sentbefore-altered")
	nd.Assert(len(g.Header) == len(w.Header), label+"search-header-keys-dropped-or-invented")
	for i := range w.Header {
		if i < len(g.Header) {
			nd.Assert(strings.EqualFold(g.Header[i].Key, w.Header[i].Key), label+"search-header-name-altered")
			nd.Assert(g.Header[i].Value == w.Header[i].Value, label+"search-header-value-altered")
		}
	}
	nd.Assert(c02strsEq(g.Body, w.Body), label+"search-body-string-altered")
	nd.Assert(c02strsEq(g.Text, w.Text), label+"search-text-string-altered")
	nd.Assert(c02flagsEq(g.Flag, w.Flag), label+"search-flag-keys-altered")
	nd.Assert(c02flagsEq(g.NotFlag, w.NotFlag), label+"search-unflag-keys-altered")
	nd.Assert(g.Larger == w.Larger, label+"search-larger-altered")
	nd.Assert(g.Smaller == w.Smaller, label+"search-smaller-altered")
	nd.Assert(len(g.Not) == len(w.Not) && len(g.Or) == len(w.Or), label+"search-not-or-keys-dropped-or-invented")
}

// VerifC02Search: SEARCH / UID SEARCH; param mask selects which criteria fields are
// populated (bit 0 sets, 1 dates, 2 header, 3 body/text, 4 flags, 5 sizes, 6 NOT, 7 OR,
// 8 return options).
func VerifC02Search() {
	scfg, en := c02cfg()
	k, mask := nd.Param("k"), nd.Param("mask")
	c, vc := c02client(scfg, en)
	uidCmd := nd.Bool()
	w := &imap.SearchCriteria{}
	if mask&1 != 0 {
		if nd.Bool() {
			w.SeqNum = []imap.SeqSet{c02set(false, nd.Choice(2)).(imap.SeqSet)}
			w.UID = []imap.UIDSet{imap.UIDSetNum(5, 6)}
		} else {
			w.UID = []imap.UIDSet{c02set(true, nd.Choice(2)).(imap.UIDSet)}
		}
	}
	if mask&2 != 0 {
		switch nd.Choice(4) {
		case 0:
			w.Since = c02date()
		case 1:
			w.Before = c02date()
		case 2:
			w.Since, w.Before = c02date(), c02date()
		default:
			w.SentSince, w.SentBefore = c02date(), c02date()
		}
	}
	if mask&4 != 0 {
		key := []string{"X-K", "Subject", "from", "Reply-To"}[nd.Choice(4)]
		w.Header = []imap.SearchCriteriaHeaderField{{Key: key, Value: c02bytes(k)}}
	}
	if mask&8 != 0 {
		if nd.Bool() {
			w.Body = []string{c02bytes(k)}
		} else {
			w.Text = []string{c02bytes(k)}
		}
	}
	if mask&16 != 0 {
		w.Flag = c02flags(2)
		w.NotFlag = c02flags(1)
	}
	if mask&32 != 0 {
		w.Larger = int64(c02num(2 + nd.Choice(2)))
		w.Smaller = int64(c02num(3 + nd.Choice(nd.Param("pw")-1)))
	}
	if mask&64 != 0 {
		w.Not = []imap.SearchCriteria{c02sub(k)}
	}
	if mask&128 != 0 {
		w.Or = [][2]imap.SearchCriteria{{c02sub(k), c02sub(k)}}
	}
	var so *imap.SearchOptions
	if mask&256 != 0 {
		so = &imap.SearchOptions{ReturnMin: nd.Bool(), ReturnMax: nd.Bool(), ReturnAll: nd.Bool(), ReturnCount: nd.Bool(), ReturnSave: nd.Bool()}
	}
	wire := c02write(c, vc, func() {
		if uidCmd {
			c.UIDSearch(w, so)
		} else {
			c.Search(w, so)
		}
	})
	sess, out := c02serve(scfg, en, 2, wire)
	nd.Note("wire", wire)
	nd.Assert(len(sess.calls) == 1 && sess.calls[0].op == "Search", "backend-did-not-receive-exactly-the-operation")
	nd.Assert(c02tagged(out) == "OK", "command-not-completed-ok")
	call := sess.calls[0]
	nd.Assert((call.kind == imapserver.NumKindUID) == uidCmd, "search-uid-mode-altered")
	g := call.criteria
	c02critEq(g, w, "")
	for i := range w.Not {
		if i < len(g.Not) {
			c02critEq(&g.Not[i], &w.Not[i], "not-")
		}
	}
	for i := range w.Or {
		if i < len(g.Or) {
			c02critEq(&g.Or[i][0], &w.Or[i][0], "or-")
			c02critEq(&g.Or[i][1], &w.Or[i][1], "or-")
		}
	}
	want := imap.SearchOptions{}
	if so != nil {
		want = *so
	}
	if !want.ReturnMin && !want.ReturnMax && !want.ReturnAll && !want.ReturnCount {
		want.ReturnAll = true // "If no return option is specified, ALL is assumed"
	}
	gs := call.sopts
	nd.Assert(gs.ReturnMin == want.ReturnMin && gs.ReturnMax == want.ReturnMax && gs.ReturnAll == want.ReturnAll && gs.ReturnCount == want.ReturnCount, "search-return-options-altered")
	nd.Assert(gs.ReturnSave == want.ReturnSave, "search-return-save-dropped")
	nd.Reach("delivered")
}

var c02appendTimes = []time.Time{
	{},
	time.Date(2024, 1, 5, 10, 11, 12, 0, time.UTC),
	time.Date(2023, 12, 31, 23, 59, 59, 0, time.FixedZone("", -5*3600)),
}

// VerifC02Append: APPEND with flags, date and payload.
func VerifC02Append() {
	scfg, en := c02cfg()
	k := nd.Param("k")
	c, vc := c02client(scfg, en)
	mb := c02mailbox(nd.Param("kmb"))
	size := nd.Param("size")
	payload := make([]byte, size)
	for i := range payload {
		payload[i] = 'm'
	}
	for i := 0; i < k && i < size; i++ {
		payload[i] = nd.Byte()
	}
	var opts *imap.AppendOptions
	if nd.Bool() {
		opts = &imap.AppendOptions{Flags: c02flags(2), Time: c02appendTimes[nd.Choice(len(c02appendTimes))]}
	}
	wire := c02write(c, vc, func() {
		cmd := c.Append(mb, int64(size), opts)
		cmd.Write(payload)
		cmd.Close()
	})
	sess, out := c02serve(scfg, en, 1, wire)
	nd.Assert(len(sess.calls) == 1 && sess.calls[0].op == "Append", "backend-did-not-receive-exactly-the-operation")
	nd.Assert(c02tagged(out) == "OK", "command-not-completed-ok")
	call := sess.calls[0]
	nd.Assert(c02mboxEq(call.s1, mb), "append-mailbox-altered")
	nd.Assert(string(call.lit) == string(payload), "append-payload-altered")
	want := imap.AppendOptions{}
	if opts != nil {
		want = *opts
	}
	nd.Assert(call.appOpts != nil, "append-options-missing")
	nd.Assert(c02flagsEq(call.appOpts.Flags, want.Flags), "append-flags-altered")
	if want.Time.IsZero() {
		nd.Assert(call.appOpts.Time.IsZero(), "append-date-invented")
	} else {
		nd.Assert(call.appOpts.Time.Equal(want.Time), "append-date-altered")
	}
	nd.Reach("delivered")
}

// VerifC02Misc: EXPUNGE, UID EXPUNGE, NAMESPACE.
func VerifC02Misc() {
	scfg, en := c02cfg()
	c, vc := c02client(scfg, en)
	switch nd.Choice(3) {
	case 0:
		wire := c02write(c, vc, func() { c.Expunge() })
		sess, out := c02serve(scfg, en, 2, wire)
		nd.Assert(len(sess.calls) == 1 && sess.calls[0].op == "Expunge" && sess.calls[0].uids == nil, "expunge-altered")
		nd.Assert(c02tagged(out) == "OK", "command-not-completed-ok")
	case 1:
		set := c02set(true, nd.Choice(2)).(imap.UIDSet)
		wire := c02write(c, vc, func() { c.UIDExpunge(set) })
		sess, out := c02serve(scfg, en, 2, wire)
		nd.Assert(len(sess.calls) == 1 && sess.calls[0].op == "Expunge" && sess.calls[0].uids != nil, "uid-expunge-altered")
		nd.Assert(c02setEq(*sess.calls[0].uids, set), "uid-expunge-set-altered")
		nd.Assert(c02tagged(out) == "OK", "command-not-completed-ok")
	default:
		wire := c02write(c, vc, func() { c.Namespace() })
		sess, out := c02serve(scfg, en, 1, wire)
		nd.Assert(len(sess.calls) == 1 && sess.calls[0].op == "Namespace", "namespace-altered")
		nd.Assert(c02tagged(out) == "OK", "command-not-completed-ok")
	}
	nd.Reach("delivered")
}

var _ io.Reader = (*vcConn)(nil)

// VerifC02Copy: COPY / MOVE (cmd=7 of VerifC02Strings), registered separately because its
// number sets need the integer-arithmetic solver route.
func VerifC02Copy() { VerifC02Strings() }
