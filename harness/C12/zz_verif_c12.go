package imapclient

// Harness for C12 (client routes responses to the right command and mirrors protocol
// state). The client's protocol state (connection state, selected-mailbox summary, pending
// commands, continuation requests) is built directly from solver-chosen values; a short
// sequence of server lines with symbolic fields is fed to the real readResponse; a
// reference interpretation of the same lines (RFC 9051 section 7) says which command
// completes with what status, who receives each datum, and what State()/Mailbox() must
// report afterwards.

import (
	"time"

	"github.com/emersion/go-imap/v2"
	nd "github.com/emersion/go-imap/v2/internal/zzverif/nd"
)

func init() {
	nd.Register("VerifC12Step", VerifC12Step)
	nd.Register("VerifC12Greeting", VerifC12Greeting)
	nd.Register("VerifC12LiteralRefusal", VerifC12LiteralRefusal)
}

const (
	k12Noop = iota
	k12Capability
	k12Login
	k12Select
	k12List
	k12ListStatus
	k12Status
	k12Append
	k12FetchSeq
	k12FetchUID
	k12Store
	k12Search
	k12UIDSearch
	k12Expunge
	k12Copy
	k12Move
	k12Unselect
	k12Logout
)

var c12kindsByState = [][]int{
	{k12Noop, k12Capability, k12Login, k12Logout},
	{k12Noop, k12Capability, k12Select, k12List, k12ListStatus, k12Status, k12Append, k12Logout},
	{k12Noop, k12List, k12ListStatus, k12Status, k12Append, k12FetchSeq, k12FetchUID, k12Store, k12Search, k12UIDSearch, k12Expunge, k12Copy, k12Move, k12Unselect, k12Logout},
}

// flag lists as written on the wire and as the client must report them
var c12flagWire = []string{"()", "(\\Seen)", "(\\seen \\DELETED kw)", "(\\Answered \\*)"}
var c12flagVal = [][]imap.Flag{{}, {imap.FlagSeen}, {imap.FlagSeen, imap.FlagDeleted, "kw"}, {imap.FlagAnswered, imap.FlagWildcard}}

type c12cmd struct {
	kind int
	tag  string
	cmd  command
	// expectations
	done    bool
	status  int // 0 OK, 1 NO, 2 BAD
	seqs    []uint32 // FETCH/EXPUNGE message numbers this command must have received, in order
	lists   []string // LIST mailbox names received, in order
	listSt  []bool   // whether the corresponding LIST entry carries STATUS data
	statusN uint32   // STATUS cmd: MESSAGES value received
	statusS bool
	search  []uint32
	// pending SELECT accumulators
	selNum   uint32
	selFlags int
	selPerm  int
	// continuation request
	cont      *contWatch
}

type contWatch struct {
	req   interface{ Wait() (string, error) }
	state int // 0 pending, 1 done, 2 cancelled
}

type c12model struct {
	state   imap.ConnState
	hasMbox bool
	name    string
	num     uint32
	flags   int
	perm    int
	all     []*c12cmd
	pend    []*c12cmd
	conts   []*c12cmd // commands with a pending continuation request, FIFO
	caps    int       // 0 initial, 1 replaced by {IMAP4rev1, XNEW}
	uniExp  []uint32
	uniFet  []uint32
	uniMbox int
}

func c12flagsEq(a, b []imap.Flag) bool {
	if len(a) != len(b) {
		return false
	}
	for i := range a {
		if a[i] != b[i] {
			return false
		}
	}
	return true
}

func c12newCmd(kind int) command {
	switch kind {
	case k12Noop:
		return &Command{}
	case k12Capability:
		return &CapabilityCommand{}
	case k12Login:
		return &loginCommand{}
	case k12Select:
		return &SelectCommand{mailbox: "mb"}
	case k12List:
		return &ListCommand{mailboxes: make(chan *imap.ListData, 64)}
	case k12ListStatus:
		return &ListCommand{mailboxes: make(chan *imap.ListData, 64), returnStatus: true}
	case k12Status:
		return &StatusCommand{mailbox: "mb"}
	case k12Append:
		return &AppendCommand{}
	case k12FetchSeq:
		var s imap.SeqSet
		s.AddRange(1, 5)
		return &FetchCommand{numSet: s, msgs: make(chan *FetchMessageData, 128)}
	case k12Store:
		var s imap.SeqSet
		s.AddRange(3, 8)
		return &FetchCommand{numSet: s, msgs: make(chan *FetchMessageData, 128)}
	case k12FetchUID:
		var s imap.UIDSet
		s.AddRange(10, 20)
		return &FetchCommand{numSet: s, msgs: make(chan *FetchMessageData, 128)}
	case k12Search:
		c := &SearchCommand{}
		c.data.All = imap.SeqSet(nil)
		return c
	case k12UIDSearch:
		c := &SearchCommand{}
		c.data.All = imap.UIDSet(nil)
		return c
	case k12Expunge:
		return &ExpungeCommand{seqNums: make(chan uint32, 128)}
	case k12Copy:
		return &CopyCommand{}
	case k12Move:
		return &MoveCommand{}
	case k12Unselect:
		return &unselectCommand{}
	case k12Logout:
		return &logoutCommand{}
	}
	panic("kind")
}

// c12num writes a decimal number of 1..maxDigits symbolic digits.
func c12num(maxDigits int, nz bool) ([]byte, uint32) {
	d := 1 + nd.Concretize(nd.Choice(maxDigits))
	var b []byte
	var v uint32
	for i := 0; i < d; i++ {
		x := nd.Byte()
		nd.Assume(x < 10)
		if nz && i == 0 {
			nd.Assume(x != 0) // nz-number: no leading zero
		}
		b = append(b, '0'+x)
		v = v*10 + uint32(x)
	}
	return b, v
}

func (m *c12model) firstPending(kinds ...int) *c12cmd {
	for _, p := range m.pend {
		for _, k := range kinds {
			if p.kind == k {
				return p
			}
		}
	}
	return nil
}

func (m *c12model) remove(p *c12cmd) {
	for i, q := range m.pend {
		if q == p {
			m.pend = append(m.pend[:i:i], m.pend[i+1:]...)
			return
		}
	}
}

func (m *c12model) removeCont(p *c12cmd) {
	for i, q := range m.conts {
		if q == p {
			m.conts = append(m.conts[:i:i], m.conts[i+1:]...)
			return
		}
	}
}

// genLine picks one server line permitted in the current model state, applies its meaning
// to the model and returns its text.
func (m *c12model) genLine() []byte {
	switch nd.Concretize(nd.Choice(13)) {
	case 0: // tagged completion of one of the pending commands
		nd.Assume(len(m.pend) > 0)
		p := m.pend[nd.Concretize(nd.Choice(len(m.pend)))]
		st := nd.Concretize(nd.Choice(3))
		code := nd.Concretize(nd.Choice(3))
		if p.kind == k12Login && st == 0 {
			code = 2 // (without a CAPABILITY code the client issues CAPABILITY on its own: not modelled)
		}
		line := p.tag + " " + []string{"OK", "NO", "BAD"}[st] + " " + []string{"", "[ALERT] ", "[CAPABILITY IMAP4rev1 XNEW] "}[code] + "done\r\n"
		if code == 2 {
			m.caps = 1
		}
		p.done, p.status = true, st
		m.remove(p)
		if p.cont != nil && p.cont.state == 0 {
			p.cont.state = 2
			m.removeCont(p)
		}
		if st == 0 {
			switch p.kind {
			case k12Login:
				m.state = imap.ConnStateAuthenticated
			case k12Select:
				m.state, m.hasMbox = imap.ConnStateSelected, true
				m.name, m.num, m.flags, m.perm = "mb", p.selNum, p.selFlags, p.selPerm
			case k12Unselect:
				m.state, m.hasMbox = imap.ConnStateAuthenticated, false
			case k12Logout:
				m.state, m.hasMbox = imap.ConnStateLogout, false
			}
		}
		return []byte(line)
	case 1: // EXISTS
		b, n := c12num(nd.Param("digits"), false)
		if sel := m.firstPending(k12Select); sel != nil {
			sel.selNum = n
		} else {
			nd.Assume(m.state == imap.ConnStateSelected)
			nd.Assume(n >= m.num) // the count shrinks only through EXPUNGE
			m.num = n
			m.uniMbox++
		}
		return append(append([]byte("* "), b...), " EXISTS\r\n"...)
	case 2: // EXPUNGE
		nd.Assume(m.state == imap.ConnStateSelected)
		b, n := c12num(nd.Param("digits"), true)
		nd.Assume(n <= m.num)
		m.num--
		if p := m.firstPending(k12Expunge); p != nil {
			p.seqs = append(p.seqs, n)
		} else {
			m.uniExp = append(m.uniExp, n)
		}
		return append(append([]byte("* "), b...), " EXPUNGE\r\n"...)
	case 3: // FLAGS
		f := nd.Concretize(nd.Choice(3))
		if sel := m.firstPending(k12Select); sel != nil {
			sel.selFlags = f
		} else {
			nd.Assume(m.state == imap.ConnStateSelected)
			m.flags = f
			m.uniMbox++
		}
		return []byte("* FLAGS " + c12flagWire[f] + "\r\n")
	case 4: // PERMANENTFLAGS
		f := nd.Concretize(nd.Choice(4))
		if sel := m.firstPending(k12Select); sel != nil {
			sel.selPerm = f
		} else {
			nd.Assume(m.state == imap.ConnStateSelected)
			m.perm = f
			m.uniMbox++
		}
		return []byte("* OK [PERMANENTFLAGS " + c12flagWire[f] + "] ok\r\n")
	case 5: // CLOSED
		nd.Assume(m.state == imap.ConnStateSelected)
		m.state, m.hasMbox = imap.ConnStateAuthenticated, false
		return []byte("* OK [CLOSED] previous mailbox closed\r\n")
	case 6: // status responses without effect on the mirrored state
		return []byte([]string{"* BYE shutting down\r\n", "* OK still here\r\n", "* NO [ALERT] disk almost full\r\n", "* BAD what\r\n", "* 3 RECENT\r\n"}[nd.Concretize(nd.Choice(5))])
	case 7: // FETCH
		nd.Assume(m.state == imap.ConnStateSelected)
		b, n := c12num(1, true)
		nd.Assume(n <= m.num)
		withUID := nd.Bool()
		var ub []byte
		var u uint32
		if withUID {
			ub, u = c12num(2, true)
		}
		// owner: a pending FETCH/STORE whose set contains the number (UID FETCH: the UID) and
		// which has not been given that message yet; several candidates => any of them
		var cands []*c12cmd
		for _, p := range m.pend {
			switch p.kind {
			case k12FetchSeq:
				if n >= 1 && n <= 5 && !c12has(p.seqs, n) {
					cands = append(cands, p)
				}
			case k12Store:
				if n >= 3 && n <= 8 && !c12has(p.seqs, n) {
					cands = append(cands, p)
				}
			case k12FetchUID:
				if withUID && u >= 10 && u <= 20 && !c12has(p.search, u) {
					cands = append(cands, p)
				}
			}
		}
		if len(cands) == 0 {
			m.uniFet = append(m.uniFet, n)
		} else {
			// record on the first candidate; the final comparison accepts any candidate
			// when there are several (see c12finish)
			p := cands[0]
			p.seqs = append(p.seqs, n)
			if p.kind == k12FetchUID {
				p.search = append(p.search, u)
			}
			if len(cands) > 1 {
				nd.Assume(false) // ambiguous owner: outside what the property fixes
			}
		}
		line := append([]byte("* "), b...)
		line = append(line, " FETCH ("...)
		if withUID {
			line = append(append(append(line, "UID "...), ub...), ' ')
		}
		return append(line, "FLAGS (\\Seen))\r\n"...)
	case 8: // LIST
		name := []string{"mb", "other"}[nd.Concretize(nd.Choice(2))]
		p := m.firstPending(k12List, k12ListStatus)
		nd.Assume(p != nil)
		if name == "mb" {
			// (an IMAP4rev2 SELECT is answered with a LIST line for its mailbox: two possible owners)
			nd.Assume(m.firstPending(k12Select) == nil)
		}
		p.lists = append(p.lists, name)
		p.listSt = append(p.listSt, false)
		return []byte("* LIST () \"/\" " + name + "\r\n")
	case 9: // STATUS
		name := []string{"mb", "other"}[nd.Concretize(nd.Choice(2))]
		b, n := c12num(nd.Param("digits"), false)
		// owner: a pending STATUS for that mailbox, or a pending LIST ... RETURN (STATUS)
		// whose latest LIST line named that mailbox
		var owner *c12cmd
		cnt := 0
		for _, p := range m.pend {
			if p.kind == k12Status && name == "mb" && !p.statusS {
				if owner == nil {
					owner = p
				}
				cnt++
			}
			if p.kind == k12ListStatus && len(p.lists) > 0 && p.lists[len(p.lists)-1] == name && !p.listSt[len(p.lists)-1] {
				if owner == nil {
					owner = p
				}
				cnt++
			}
		}
		nd.Assume(cnt == 1)
		if owner.kind == k12Status {
			owner.statusS, owner.statusN = true, n
		} else {
			owner.listSt[len(owner.lists)-1] = true
			owner.statusN = n
		}
		return append(append([]byte("* STATUS "+name+" (MESSAGES "), b...), ")\r\n"...)
	case 10: // SEARCH / ESEARCH
		b, n := c12num(nd.Param("digits"), true)
		if nd.Bool() {
			p := m.firstPending(k12Search, k12UIDSearch)
			nd.Assume(p != nil)
			p.search = append(p.search, n)
			return append(append([]byte("* SEARCH "), b...), "\r\n"...)
		}
		// ESEARCH names its command by tag
		var owners []*c12cmd
		for _, p := range m.pend {
			if p.kind == k12Search || p.kind == k12UIDSearch {
				owners = append(owners, p)
			}
		}
		nd.Assume(len(owners) > 0)
		p := owners[nd.Concretize(nd.Choice(len(owners)))]
		uid := ""
		if p.kind == k12UIDSearch {
			uid = "UID "
		}
		if nd.Bool() {
			// nothing matched: only the correlator (and UID) is sent
			p.search = nil
			if uid != "" {
				return []byte("* ESEARCH (TAG \"" + p.tag + "\") UID\r\n")
			}
			return []byte("* ESEARCH (TAG \"" + p.tag + "\")\r\n")
		}
		p.search = []uint32{n} // an ESEARCH response replaces the result
		return append(append([]byte("* ESEARCH (TAG \""+p.tag+"\") "+uid+"ALL "), b...), "\r\n"...)
	case 11: // CAPABILITY
		m.caps = 1
		return []byte("* CAPABILITY IMAP4rev1 XNEW\r\n")
	default: // continuation request
		nd.Assume(len(m.conts) > 0)
		p := m.conts[0]
		p.cont.state = 1
		m.conts = m.conts[1:]
		return []byte("+ go ahead\r\n")
	}
}

func c12has(l []uint32, x uint32) bool {
	for _, y := range l {
		if y == x {
			return true
		}
	}
	return false
}

// VerifC12Step: `lines` server lines from an arbitrary client state with `slots` pending commands.
func VerifC12Step() {
	m := &c12model{}
	si := nd.Concretize(nd.Choice(3))
	m.state = []imap.ConnState{imap.ConnStateNotAuthenticated, imap.ConnStateAuthenticated, imap.ConnStateSelected}[si]
	vc := &vcConn{}
	var hExp []uint32
	hMbox := 0
	fetDone := make(chan uint32, 16)
	opts := &Options{UnilateralDataHandler: &UnilateralDataHandler{
		Expunge: func(n uint32) { hExp = append(hExp, n) },
		Mailbox: func(d *UnilateralDataMailbox) { hMbox++ },
		Fetch: func(msg *FetchMessageData) {
			defer nd.Recover()
			msg.Collect()
			fetDone <- msg.SeqNum
		},
	}}
	c := vcDirect(vc, m.state, opts)
	if m.state == imap.ConnStateSelected {
		m.hasMbox, m.name = true, "cur"
		m.num = uint32(nd.Byte())
		m.flags, m.perm = 1, 2
		c.mailbox = &SelectedMailbox{Name: "cur", NumMessages: m.num, Flags: c12flagVal[1], PermanentFlags: c12flagVal[2]}
	}
	// tags: T1, T10, T11 (as if T2..T9 had completed), so that one tag is a prefix of another
	kinds := c12kindsByState[si]
	// cfg selects (pending commands, server lines)
	cfg := [][2]int{{2, 1}, {3, 1}, {1, 2}, {1, 3}, {3, 1}}[nd.Param("cfg")]
	slots := cfg[0]
	if nd.Param("cfg") == 4 {
		// three pending commands over a small alphabet (two commands of one kind behind
		// an unrelated one: the order of the pending queue matters for routing)
		kinds = [][]int{{k12Noop, k12Capability}, {k12Noop, k12List, k12Status}, {k12Noop, k12List, k12Search, k12FetchSeq}}[si]
	}
	for i := 0; i < slots; i++ {
		ki := nd.Concretize(nd.Choice(len(kinds) + 1))
		if ki == len(kinds) {
			continue
		}
		p := &c12cmd{kind: kinds[ki], cmd: c12newCmd(kinds[ki]), selFlags: 0, selPerm: 0}
		p.tag = vcPend(c, p.cmd)
		if c.cmdTag == 1 {
			c.cmdTag = 9
		}
		// data accumulated by earlier lines is part of the arbitrary pre-state
		switch cmd := p.cmd.(type) {
		case *SelectCommand:
			if nd.Bool() {
				p.selNum = uint32(nd.Byte())
				p.selFlags, p.selPerm = 2, 3
				cmd.data.NumMessages, cmd.data.Flags, cmd.data.PermanentFlags = p.selNum, c12flagVal[2], c12flagVal[3]
			}
		case *SearchCommand:
			if nd.Bool() {
				// a result received earlier
				p.search = []uint32{7}
				if p.kind == k12UIDSearch {
					cmd.data.All = imap.UIDSetNum(7)
				} else {
					cmd.data.All = imap.SeqSetNum(7)
				}
			}
		case *ListCommand:
			if cmd.returnStatus && nd.Bool() {
				cmd.pendingData = &imap.ListData{Mailbox: "mb"}
				p.lists, p.listSt = []string{"mb"}, []bool{false}
			}
		}
		if p.kind == k12Append && nd.Bool() {
			// the command is blocked on a synchronising literal
			p.cont = &contWatch{req: c.registerContReq(p.cmd)}
			m.conts = append(m.conts, p)
		}
		m.all = append(m.all, p)
		m.pend = append(m.pend, p)
	}
	nlines := cfg[1]
	var in []byte
	for i := 0; i < nlines; i++ {
		in = append(in, m.genLine()...)
	}
	vc.in = in
	nd.Note("in", in, si, len(m.all))
	for i := 0; i < nlines; i++ {
		err := c.readResponse()
		nd.Assert(err == nil, "conformant-line-rejected")
	}
	nd.Reach("step")
	c12finish(c, m, &hExp, &hMbox, fetDone)
}

func c12finish(c *Client, m *c12model, hExp *[]uint32, hMbox *int, fetDone chan uint32) {
	// mirrored state
	nd.Assert(c.State() == m.state, "connection-state-differs-from-transcript")
	mb := c.Mailbox()
	nd.Assert((mb != nil) == m.hasMbox, "selected-mailbox-presence-differs-from-transcript")
	if mb != nil && m.hasMbox {
		nd.Assert(mb.Name == m.name, "mailbox-name-differs-from-transcript")
		nd.Assert(mb.NumMessages == m.num, "message-count-differs-from-transcript")
		nd.Assert(c12flagsEq(mb.Flags, c12flagVal[m.flags]), "mailbox-flags-differ-from-transcript")
		nd.Assert(c12flagsEq(mb.PermanentFlags, c12flagVal[m.perm]), "permanent-flags-differ-from-transcript")
	}
	if m.caps == 1 {
		nd.Assert(len(c.caps) == 2 && c.caps.Has("XNEW") && c.caps.Has(imap.CapIMAP4rev1), "capabilities-differ-from-transcript")
	} else {
		nd.Assert(len(c.caps) == 1 && c.caps.Has(imap.CapIMAP4rev1), "capabilities-changed-without-cause")
	}
	// pending queue: exactly the commands not yet answered, in order
	nd.Assert(len(c.pendingCmds) == len(m.pend), "pending-command-set-differs")
	for i := range m.pend {
		if i < len(c.pendingCmds) {
			nd.Assert(c.pendingCmds[i] == m.pend[i].cmd, "pending-command-order-differs")
		}
	}
	nd.Assert(len(c.contReqs) == len(m.conts), "pending-continuation-requests-differ")
	// unilateral data
	nd.Assert(len(*hExp) == len(m.uniExp), "unilateral-expunge-count")
	for i := range m.uniExp {
		if i < len(*hExp) {
			nd.Assert((*hExp)[i] == m.uniExp[i], "unilateral-expunge-number")
		}
	}
	for range m.uniFet {
		<-fetDone
	}
	// per command: completion exactly once with the right status; data delivered to its owner
	for _, p := range m.all {
		done := p.cmd.base().done
		if p.done {
			var err error
			got := false
			select {
			case e, ok := <-done:
				got, err = ok, e
			default:
			}
			nd.Assert(got, "command-not-completed-by-its-tagged-response")
			if p.status == 0 {
				nd.Assert(err == nil, "ok-completion-reported-as-error")
			} else {
				ie, ok := err.(*imap.Error)
				nd.Assert(ok, "no-bad-completion-not-reported-as-imap-error")
				if ok {
					want := imap.StatusResponseTypeNo
					if p.status == 2 {
						want = imap.StatusResponseTypeBad
					}
					nd.Assert(ie.Type == want, "completion-status-differs-from-tagged-response")
				}
			}
			select {
			case _, ok := <-done:
				nd.Assert(!ok, "command-completed-twice")
			default:
				nd.Fail("completion-channel-left-open")
			}
		} else {
			select {
			case <-done:
				nd.Fail("command-completed-without-its-tagged-response")
			default:
			}
		}
		if p.cont != nil {
			switch p.cont.state {
			case 1:
				_, err := p.cont.req.Wait()
				nd.Assert(err == nil, "continuation-request-not-granted")
			case 2:
				_, err := p.cont.req.Wait()
				nd.Assert(err != nil, "continuation-request-of-refused-command-granted")
			}
		}
		switch cmd := p.cmd.(type) {
		case *FetchCommand:
			var got []uint32
			for {
				var msg *FetchMessageData
				ok, more := false, false
				select {
				case msg, more = <-cmd.msgs:
					ok = true
				default:
				}
				if !ok {
					nd.Assert(!p.done, "fetch-stream-not-closed-on-completion")
					break
				}
				if !more {
					nd.Assert(p.done, "fetch-stream-closed-before-completion")
					break
				}
				got = append(got, msg.SeqNum)
			}
			nd.Assert(len(got) == len(p.seqs), "fetch-data-not-delivered-to-its-command")
			for i := range p.seqs {
				if i < len(got) {
					nd.Assert(got[i] == p.seqs[i], "fetch-data-order-or-number-differs")
				}
			}
		case *ExpungeCommand:
			var got []uint32
			for {
				var n uint32
				ok, more := false, false
				select {
				case n, more = <-cmd.seqNums:
					ok = true
				default:
				}
				if !ok {
					nd.Assert(!p.done, "expunge-stream-not-closed-on-completion")
					break
				}
				if !more {
					nd.Assert(p.done, "expunge-stream-closed-before-completion")
					break
				}
				got = append(got, n)
			}
			nd.Assert(len(got) == len(p.seqs), "expunge-data-not-delivered-to-its-command")
			for i := range p.seqs {
				if i < len(got) {
					nd.Assert(got[i] == p.seqs[i], "expunge-data-order-or-number-differs")
				}
			}
		case *ListCommand:
			var got []*imap.ListData
			for {
				var d *imap.ListData
				ok, more := false, false
				select {
				case d, more = <-cmd.mailboxes:
					ok = true
				default:
				}
				if !ok {
					nd.Assert(!p.done, "list-stream-not-closed-on-completion")
					break
				}
				if !more {
					nd.Assert(p.done, "list-stream-closed-before-completion")
					break
				}
				got = append(got, d)
			}
			if !p.done && cmd.pendingData != nil {
				got = append(got, cmd.pendingData) // buffered until its STATUS arrives
			}
			nd.Assert(len(got) == len(p.lists), "list-data-not-delivered-to-its-command")
			for i := range p.lists {
				if i < len(got) {
					nd.Assert(got[i].Mailbox == p.lists[i], "list-data-order-or-name-differs")
					nd.Assert((got[i].Status != nil) == p.listSt[i], "list-status-pairing-differs")
					if got[i].Status != nil && p.listSt[i] {
						nd.Assert(got[i].Status.Mailbox == p.lists[i], "list-status-paired-with-wrong-mailbox")
					}
				}
			}
		case *StatusCommand:
			if p.statusS {
				nd.Assert(cmd.data.Mailbox == "mb" && cmd.data.NumMessages != nil && *cmd.data.NumMessages == p.statusN, "status-data-not-delivered-to-its-command")
			} else {
				nd.Assert(cmd.data.NumMessages == nil, "status-data-delivered-to-wrong-command")
			}
		case *SearchCommand:
			var n uint64
			switch all := cmd.data.All.(type) {
			case imap.SeqSet:
				for _, x := range p.search {
					nd.Assert(all.Contains(x), "search-result-not-delivered-to-its-command")
				}
				for _, r := range all {
					n += uint64(r.Stop-r.Start) + 1
				}
			case imap.UIDSet:
				for _, x := range p.search {
					nd.Assert(all.Contains(imap.UID(x)), "search-result-not-delivered-to-its-command")
				}
				for _, r := range all {
					n += uint64(r.Stop-r.Start) + 1
				}
			default:
				nd.Assert(len(p.search) == 0, "search-result-lost")
			}
			nd.Assert(n <= uint64(len(p.search)), "search-result-delivered-to-wrong-command")
		case *SelectCommand:
			if !p.done {
				nd.Assert(cmd.data.NumMessages == p.selNum, "select-data-count-differs")
				nd.Assert(c12flagsEq(cmd.data.Flags, c12flagVal[p.selFlags]) || (p.selFlags == 0 && cmd.data.Flags == nil), "select-data-flags-differ")
				nd.Assert(c12flagsEq(cmd.data.PermanentFlags, c12flagVal[p.selPerm]) || (p.selPerm == 0 && cmd.data.PermanentFlags == nil), "select-data-permanent-flags-differ")
			}
		}
	}
	// a NO or BAD leaves the connection usable: a further command can still be issued
	if m.state != imap.ConnStateLogout {
		before := len(c.pendingCmds)
		noop := c.Noop()
		nd.Assert(len(c.pendingCmds) == before+1, "connection-unusable-after-completion")
		nd.Assert(c.conn.(*vcConn).closed == 0, "connection-closed-by-command-completion")
		_ = noop
	}
}

// VerifC12Greeting: base case, a fresh client and the three greetings.
func VerifC12Greeting() {
	g := nd.Concretize(nd.Choice(3))
	line := []string{"* OK [CAPABILITY IMAP4rev1] hi\r\n", "* PREAUTH [CAPABILITY IMAP4rev1] hi\r\n", "* BYE busy\r\n"}[g]
	vc := &vcConn{in: []byte(line)}
	c := vcDirect(vc, imap.ConnStateNone, nil)
	c.greetingRecv = false
	c.caps = nil
	err := c.readResponse()
	nd.Reach("greeting")
	nd.Note("g", g)
	nd.Assert(err == nil, "greeting-rejected")
	want := []imap.ConnState{imap.ConnStateNotAuthenticated, imap.ConnStateAuthenticated, imap.ConnStateLogout}[g]
	nd.Assert(c.State() == want, "state-after-greeting")
	nd.Assert(c.Mailbox() == nil, "mailbox-after-greeting")
	nd.Assert((c.WaitGreeting() != nil) == (g == 2), "greeting-error")
}

// VerifC12LiteralRefusal: "a NO or BAD for one command (including a refusal of its literal)
// affects neither other commands nor the usability of the connection". A command blocks on
// a synchronising literal; the server answers with a tagged NO/BAD instead of the
// continuation request; afterwards another command must still be usable on the connection.
func VerifC12LiteralRefusal() {
	vc := &vcConn{silent: true}
	c := vcDirect(vc, imap.ConnStateAuthenticated, nil)
	close(c.greetingCh)
	which := nd.Choice(3)
	done := make(chan struct{})
	var first *Command
	var app *AppendCommand
	go func() {
		defer nd.Recover()
		defer close(done)
		switch which {
		case 0:
			first = c.Login("u\n", "p\xff") // both arguments are synchronising literals; the first is refused
		case 1:
			first = c.Login("u\r", "p") // CR: the first argument is a synchronising literal
		default:
			app = c.Append("INBOX", 5, nil)
			app.Write([]byte("hello"))
			app.Close()
		}
	}()
	for i := 0; i < 400 && len(vc.out) == 0; i++ {
		time.Sleep(time.Millisecond)
	}
	for i := 0; i < 5; i++ {
		time.Sleep(time.Millisecond)
	}
	c.mutex.Lock()
	blocked := len(c.contReqs)
	c.mutex.Unlock()
	nd.Assert(blocked == 1, "command-not-blocked-on-its-literal")
	if nd.Bool() {
		vc.in = append(vc.in, "T1 NO refused\r\n"...)
	} else {
		vc.in = append(vc.in, "T1 BAD refused\r\n"...)
	}
	nd.Assert(c.readResponse() == nil, "conformant-line-rejected")
	for i := 0; i < 400; i++ {
		select {
		case <-done:
			i = 400
		default:
			time.Sleep(time.Millisecond)
		}
	}
	var err error
	if app != nil {
		_, err = app.Wait()
	} else {
		err = first.Wait()
	}
	nd.Assert(err != nil, "refused-command-reports-success")
	// the connection is still usable
	nd.Assert(vc.closed == 0, "connection-closed-because-one-literal-was-refused")
	noop := c.Noop()
	vc.in = append(vc.in, "T2 OK done\r\n"...)
	nd.Assert(c.readResponse() == nil, "client-unusable-after-refused-literal")
	ok, nerr := vcDone(noop)
	nd.Assert(ok && nerr == nil, "later-command-does-not-complete-after-refused-literal")
	// ... including a later command that needs a continuation request of its own: the
	// server's "+" must reach it (no stale request of the refused command is in the way)
	done2 := make(chan struct{})
	var third *Command
	go func() {
		defer nd.Recover()
		defer close(done2)
		third = c.Login("a", "b\x00")
	}()
	before := len(vc.out)
	for i := 0; i < 400 && len(vc.out) == before; i++ {
		time.Sleep(time.Millisecond)
	}
	for i := 0; i < 5; i++ {
		time.Sleep(time.Millisecond)
	}
	c.mutex.Lock()
	nreq := len(c.contReqs)
	c.mutex.Unlock()
	nd.Assert(nreq == 1, "stale-continuation-request-of-the-refused-command-still-registered")
	vc.in = append(vc.in, "+ go\r\nT3 OK in\r\n"...)
	nd.Assert(c.readResponse() == nil, "client-unusable-after-refused-literal")
	for i := 0; i < 400; i++ {
		select {
		case <-done2:
			i = 400
		default:
			time.Sleep(time.Millisecond)
		}
	}
	nd.Assert(c.readResponse() == nil, "client-unusable-after-refused-literal")
	ok3, err3 := vcDone(third)
	nd.Assert(ok3 && err3 == nil, "later-literal-command-does-not-complete-after-refused-literal")
	nd.Reach("refused-literal")
}
