package imapwire

// Overlay-only accessors for the verification harnesses (never on disk under /repo).

// VerifListDepth reports the decoder's current list nesting.
func (dec *Decoder) VerifListDepth() int { return dec.listDepth }

// VerifLiteralOpen reports whether a literal is still open.
func (dec *Decoder) VerifLiteralOpen() bool { return dec.literal }
