package imapclient

// C18 — the client only uses syntax the server advertised and respects literal
// synchronisation. Injected by overlay into package imapclient.
//
// The command under test runs on its own goroutine (it blocks inside
// ContinuationRequest.Wait for synchronising literals); the harness plays the server:
// every time the command is blocked it checks that the output ends exactly at a
// "{n}" CRLF header, takes a symbolic decision (grant / tagged NO / tagged BAD) and feeds
// the corresponding line through the real readResponse. The complete output is then
// tokenised by an independent scanner.

import (
	"time"

	"github.com/emersion/go-imap/v2"
	nd "github.com/emersion/go-imap/v2/internal/zzverif/nd"
)

func init() {
	nd.Register("VerifC18Syntax", VerifC18Syntax)
	nd.Register("VerifC18Long", VerifC18Long)
	nd.Register("VerifC18Append", VerifC18Append)
	nd.Register("VerifC18Unauth", VerifC18Unauth)
}

// c18tok is one string token found by the scanner.
type c18tok struct {
	kind    byte // 'q' quoted, 's' synchronising literal, 'n' non-synchronising literal
	val     []byte
	hdrEnd  int  // offset just after the literal header's CRLF
	n       int  // announced size
	partial bool // output ended inside the payload
}

// c18scan tokenises a client command stream. It knows nothing about imapwire.
// Returns the first syntax complaint (or ""), the string tokens and whether the stream
// ended exactly after a CRLF that terminates a command line.
func c18scan(out []byte, allow8, litPlus, litMinus bool) (bad string, toks []c18tok, lines int, tailOK bool) {
	bad, toks, lines, tailOK, _ = c18scanP(out, allow8, litPlus, litMinus)
	return
}

// c18scanP additionally returns the bytes outside strings and literals.
func c18scanP(out []byte, allow8, litPlus, litMinus bool) (bad string, toks []c18tok, lines int, tailOK bool, plain []byte) {
	i := 0
	tailOK = true
	for i < len(out) {
		ch := out[i]
		switch {
		case ch == '"':
			var val []byte
			j := i + 1
			closed := false
			for j < len(out) {
				c := out[j]
				if c == '\\' {
					if j+1 >= len(out) {
						return "quoted-string-unterminated", toks, lines, false, plain
					}
					e := out[j+1]
					if e != '"' && e != '\\' {
						return "quoted-string-bad-escape", toks, lines, false, plain
					}
					val = append(val, e)
					j += 2
					continue
				}
				if c == '"' {
					closed = true
					break
				}
				if c == 0 || c == '\r' || c == '\n' {
					return "quoted-string-contains-cr-lf-or-nul", toks, lines, false, plain
				}
				if c >= 0x80 && !allow8 {
					return "quoted-string-contains-8bit-without-utf8-permission", toks, lines, false, plain
				}
				val = append(val, c)
				j++
			}
			if !closed {
				return "quoted-string-unterminated", toks, lines, false, plain
			}
			toks = append(toks, c18tok{kind: 'q', val: val})
			i = j + 1
			tailOK = false
		case ch == '{':
			// literal header: "{" digits ["+"] "}" CRLF
			j := i + 1
			n := 0
			digits := 0
			for j < len(out) && out[j] >= '0' && out[j] <= '9' && digits < 12 {
				n = n*10 + int(out[j]-'0')
				j++
				digits++
			}
			plus := false
			if j < len(out) && out[j] == '+' {
				plus = true
				j++
			}
			if digits == 0 || j+2 >= len(out) || out[j] != '}' || out[j+1] != '\r' || out[j+2] != '\n' {
				// not a literal header: an ordinary byte
				plain = append(plain, ch)
				i++
				tailOK = false
				continue
			}
			hdrEnd := j + 3
			t := c18tok{kind: 's', n: n, hdrEnd: hdrEnd}
			if plus {
				t.kind = 'n'
				if !(litPlus || (litMinus && n <= 4096)) {
					return "non-synchronising-literal-not-permitted-by-capabilities", toks, lines, false, plain
				}
			}
			end := hdrEnd + n
			if end > len(out) {
				t.partial = true
				t.val = out[hdrEnd:]
				toks = append(toks, t)
				return "", toks, lines, false, plain
			}
			t.val = out[hdrEnd:end]
			toks = append(toks, t)
			i = end
			tailOK = false
		case ch == '\r' && i+1 < len(out) && out[i+1] == '\n':
			lines++
			i += 2
			tailOK = true
		default:
			plain = append(plain, ch)
			i++
			tailOK = false
		}
	}
	return "", toks, lines, tailOK, plain
}

func c18contains(b []byte, s string) bool {
	for i := 0; i+len(s) <= len(b); i++ {
		if string(b[i:i+len(s)]) == s {
			return true
		}
	}
	return false
}

func c18has8bit(s string) bool {
	r := false
	for i := 0; i < len(s); i++ {
		r = nd.Or(r, s[i] >= 0x80)
	}
	return r
}

func c18pending(c *Client) int {
	c.mutex.Lock()
	n := len(c.contReqs)
	c.mutex.Unlock()
	return n
}

func c18isDone(ch chan struct{}) bool {
	select {
	case <-ch:
		return true
	default:
		return false
	}
}

// c18str builds a string argument: "long" filler bytes ('a') followed by k symbolic bytes,
// or (front=1) the symbolic bytes first.
func c18str(k, long, front int) string {
	w := nd.Bytes(k)
	if long <= k {
		return string(w)
	}
	b := make([]byte, 0, long)
	if front == 1 {
		b = append(b, w...)
	}
	for len(b) < long-k*(1-front) {
		b = append(b, 'a')
	}
	if front != 1 {
		b = append(b, w...)
	}
	return string(b)
}

func c18eq(a []byte, b string) bool {
	if len(a) != len(b) {
		return false
	}
	for i := range a {
		if a[i] != b[i] {
			return false
		}
	}
	return true
}

var c18appendSizes = []int{0, 1, 4095, 4096, 4097, 5000}

// VerifC18Syntax: params cmd (command kind), k (symbolic bytes per string), long (total
// string length when > k), front (window position).
func VerifC18Syntax() {
	kind := nd.Param("cmd")
	k := nd.Param("k")
	long := nd.Param("long")
	front := nd.Param("front")

	// --- capability configuration (symbolic)
	caps := imap.CapSet{imap.CapIMAP4rev1: {}}
	rev2 := nd.Bool()
	litMinusAdv := nd.Bool()
	litPlusAdv := nd.Bool()
	utf8Adv := nd.Bool()
	utf8On := nd.Bool()
	if rev2 {
		caps[imap.CapIMAP4rev2] = struct{}{}
	}
	if litMinusAdv {
		caps[imap.CapLiteralMinus] = struct{}{}
	}
	if litPlusAdv {
		caps[imap.CapLiteralPlus] = struct{}{}
	}
	if utf8Adv {
		caps[imap.CapUTF8Accept] = struct{}{}
	}
	// ENABLE UTF8=ACCEPT can only have succeeded if the server advertises it
	nd.Assume(nd.Implies(utf8On, utf8Adv))

	vc := &vcConn{silent: true}
	c := vcDirect(vc, imap.ConnStateAuthenticated, nil)
	c.caps = caps
	close(c.greetingCh) // the greeting has been received (Client.Caps waits for it)
	if utf8On {
		c.enabled[imap.CapUTF8Accept] = struct{}{}
	}

	// what the RFCs allow for this server
	allow8 := rev2 || utf8On
	litPlus := litPlusAdv
	litMinus := litMinusAdv || rev2 || litPlusAdv

	// --- the command
	var args []string // string arguments in wire order (as the caller passed them)
	var mailboxArg []bool
	var run func()
	appendSize := -1
	isSearch := kind == 4 || kind == 5 || kind == 11
	var payload []byte
	switch kind {
	case 0:
		u, p := c18str(k, long, front), c18str(k, 0, 0)
		args, mailboxArg = []string{u, p}, []bool{false, false}
		run = func() { c.Login(u, p) }
	case 1:
		mb := c18str(k, long, front)
		args, mailboxArg = []string{mb}, []bool{true}
		run = func() { c.Select(mb, nil) }
	case 2:
		a, b := c18str(k, 0, 0), c18str(k, long, front)
		args, mailboxArg = []string{a, b}, []bool{true, true}
		run = func() { c.Rename(a, b) }
	case 3:
		ref, pat := c18str(k, 0, 0), c18str(k, long, front)
		// (the pattern is a mailbox name too: sent in modified UTF-7 since e645283)
		args, mailboxArg = []string{ref, pat}, []bool{true, true}
		run = func() { c.List(ref, pat, nil) }
	case 4:
		s := c18str(k, long, front)
		args, mailboxArg = []string{s}, []bool{false}
		run = func() { c.Search(&imap.SearchCriteria{Text: []string{s}}, nil) }
	case 5:
		hk, hv := "X-K", c18str(k, long, front)
		args, mailboxArg = []string{hk, hv}, []bool{false, false}
		run = func() {
			c.UIDSearch(&imap.SearchCriteria{Header: []imap.SearchCriteriaHeaderField{{Key: hk, Value: hv}}}, nil)
		}
	case 6:
		mb := c18str(k, 0, 0)
		appendSize = c18appendSizes[nd.Param("size")]
		payload = make([]byte, appendSize)
		for i := range payload {
			payload[i] = 'm'
		}
		if appendSize > 0 {
			payload[appendSize-1] = nd.Byte()
			payload[0] = nd.Byte()
		}
		args, mailboxArg = []string{mb, string(payload)}, []bool{true, false}
		run = func() {
			cmd := c.Append(mb, int64(appendSize), nil)
			cmd.Write(payload)
			cmd.Close()
		}
	case 7:
		dest := c18str(k, long, front)
		args, mailboxArg = []string{dest}, []bool{true}
		run = func() { c.Copy(imap.SeqSetNum(1), dest) }
	case 8:
		root := c18str(k, long, front)
		args, mailboxArg = []string{root}, []bool{false}
		run = func() { c.GetQuota(root) }
	case 9:
		mb, e := c18str(k, 0, 0), c18str(k, long, front)
		args, mailboxArg = []string{mb, e}, []bool{true, false}
		run = func() { c.GetMetadata(mb, []string{e}, nil) }
	case 10:
		name := c18str(k, long, front)
		args, mailboxArg = []string{name}, []bool{false}
		run = func() {
			c.Search(&imap.SearchCriteria{ModSeq: &imap.SearchCriteriaModSeq{ModSeq: 5, MetadataName: name, MetadataType: imap.SearchCriteriaMetadataAll}}, nil)
		}
	case 11:
		body := c18str(k, long, front)
		flt := c18str(k, 0, 0)
		args, mailboxArg = []string{flt, body}, []bool{false, false}
		run = func() {
			c.Search(&imap.SearchCriteria{Not: []imap.SearchCriteria{{Body: []string{flt}}}, Or: [][2]imap.SearchCriteria{{{Text: []string{body}}, {}}}}, nil)
		}
	default:
		panic("c18: unknown command kind")
	}

	done := make(chan struct{})
	go func() {
		defer nd.Recover()
		defer close(done)
		run()
	}()

	// --- play the server
	var syncPoints []int // output length each time the command was found blocked
	refusedAt := -1
	granted := 0
	for round := 0; round < 6; round++ {
		for i := 0; i < 400 && !c18isDone(done) && c18pending(c) == 0; i++ {
			time.Sleep(time.Millisecond)
		}
		if c18isDone(done) {
			break
		}
		nd.Assert(c18pending(c) == 1, "more-than-one-continuation-request-outstanding")
		// give the command time to flush the header and block
		for i := 0; i < 3; i++ {
			time.Sleep(time.Millisecond)
		}
		at := len(vc.out)
		syncPoints = append(syncPoints, at)
		// the bytes written so far must end exactly at a synchronising-literal header
		_, toks, _, _ := c18scan(vc.out, true, true, true)
		okHdr := len(toks) > 0 && toks[len(toks)-1].kind == 's' && toks[len(toks)-1].hdrEnd == at
		nd.Assert(okHdr, "blocked-on-continuation-but-output-does-not-end-at-literal-header")
		nd.Reach("blocked")
		dec := nd.Choice(3)
		switch dec {
		case 0:
			vc.in = append(vc.in, "+ go ahead\r\n"...)
			granted++
		case 1:
			vc.in = append(vc.in, "T1 NO refused\r\n"...)
		default:
			vc.in = append(vc.in, "T1 BAD refused\r\n"...)
		}
		err := c.readResponse()
		nd.Assert(err == nil, "client-rejects-conformant-server-line")
		if dec != 0 {
			refusedAt = at
			for i := 0; i < 400 && !c18isDone(done); i++ {
				time.Sleep(time.Millisecond)
			}
			break
		}
	}
	nd.Assert(c18isDone(done), "command-did-not-finish-writing")
	if refusedAt < 0 {
		nd.Assert(c18pending(c) == 0, "continuation-request-left-registered")
	}

	out := vc.out
	bad, toks, lines, tailOK, plain := c18scanP(out, allow8, litPlus, litMinus)
	if bad != "" {
		nd.Fail(bad)
	}
	if isSearch {
		charset := c18contains(plain, "CHARSET")
		nd.Assert(!(utf8On && charset), "search-charset-sent-although-utf8-accept-enabled")
		if refusedAt < 0 {
			any8 := false
			for _, a := range args {
				any8 = nd.Or(any8, c18has8bit(a))
			}
			nd.Assert(nd.Implies(nd.And(any8, !allow8), charset), "8bit-search-string-without-charset")
		}
	}

	if refusedAt >= 0 {
		// nothing of the refused literal's payload may have been written
		last := toks[len(toks)-1]
		nd.Assert(last.kind == 's' && last.hdrEnd == refusedAt, "refused-literal-not-last-token")
		want := args[len(toks)-1]
		if mailboxArg[len(toks)-1] {
			want = "" // (UTF-7 form not recomputed here; length check below suffices)
		}
		rest := out[refusedAt:]
		if last.n > 0 && !mailboxArg[len(toks)-1] {
			nd.Assert(!(len(rest) >= last.n && c18eq(rest[:last.n], want)), "payload-written-after-tagged-refusal")
		}
		nd.Assert(len(rest) < last.n || last.n == 0, "literal-sized-data-written-after-tagged-refusal")
		nd.Reach("refused")
		return
	}

	// every literal was granted: one complete command line
	nd.Assert(lines == 1 && tailOK, "output-is-not-one-complete-command-line")
	nd.Assert(len(toks) == len(args), "string-arguments-missing-or-extra")
	nsync := 0
	for i, t := range toks {
		nd.Assert(!t.partial, "literal-header-announces-more-than-was-written")
		if t.kind == 's' {
			// the payload must not have been written before the continuation request:
			// the output length observed while blocked equals the header end
			found := false
			for _, p := range syncPoints {
				if p == t.hdrEnd {
					found = true
				}
			}
			nd.Assert(found, "synchronising-literal-payload-written-without-waiting")
			nsync++
		}
		if !mailboxArg[i] {
			nd.Assert(c18eq(t.val, args[i]), "string-argument-bytes-differ-from-callers")
		}
	}
	nd.Assert(nsync == granted, "continuation-requests-granted-differ-from-synchronising-literals")
	if appendSize >= 0 {
		nd.Reach("append")
	}
	nd.Reach("complete")
}

// VerifC18Long: the same harness, registered a second time so that the threshold-length
// strings get their own parameter grid.
func VerifC18Long() { VerifC18Syntax() }

// VerifC18Append: the same harness with cmd=6 and one APPEND size per run.
func VerifC18Append() { VerifC18Syntax() }

// VerifC18Unauth: UTF8=ACCEPT enabled, then UNAUTHENTICATE (which resets the enabled
// extensions, RFC 8437): afterwards 8-bit strings must again travel as literals on a
// server without IMAP4rev2.
func VerifC18Unauth() {
	vc := &vcConn{silent: true}
	c := vcDirect(vc, imap.ConnStateAuthenticated, nil)
	c.caps = imap.CapSet{imap.CapIMAP4rev1: {}, imap.CapUTF8Accept: {}, imap.CapUnauthenticate: {}}
	close(c.greetingCh)
	c.enabled[imap.CapUTF8Accept] = struct{}{}
	un := c.Unauthenticate()
	ok := nd.Bool()
	if ok {
		vc.in = append(vc.in, "T1 OK [CAPABILITY IMAP4rev1 UTF8=ACCEPT UNAUTHENTICATE] bye\r\n"...)
	} else {
		vc.in = append(vc.in, "T1 NO no\r\n"...)
	}
	nd.Assert(c.readResponse() == nil, "client-rejects-conformant-server-line")
	_, _ = vcDone(un)
	before := len(vc.out)
	b := nd.Byte()
	nd.Assume(b >= 0x80)
	done := make(chan struct{})
	go func() {
		defer nd.Recover()
		defer close(done)
		c.Login("u", string([]byte{'p', b}))
	}()
	for i := 0; i < 400 && !c18isDone(done) && c18pending(c) == 0; i++ {
		time.Sleep(time.Millisecond)
	}
	for i := 0; i < 3; i++ {
		time.Sleep(time.Millisecond)
	}
	// UTF8=ACCEPT is still in force only if UNAUTHENTICATE was refused
	bad, _, _, _ := c18scan(vc.out[before:], !ok, false, false)
	if bad != "" {
		nd.Fail(bad)
	}
	nd.Reach("unauthenticated")
}
