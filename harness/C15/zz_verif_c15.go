package imap

// Harness for C15 (number sets behave as mathematical sets). Injected by overlay
// into the root package so that the public SeqSet/UIDSet wrappers (and their unsafe
// casts onto imapnum.Set) are what is driven.

import (
	"github.com/emersion/go-imap/v2/internal/imapnum"
	nd "github.com/emersion/go-imap/v2/internal/zzverif/nd"
)

func init() {
	nd.Register("VerifC15Insert", VerifC15Insert)
	nd.Register("VerifC15InsertUID", VerifC15InsertUID)
	nd.Register("VerifC15AddSet", VerifC15AddSet)
	nd.Register("VerifC15Search", VerifC15Search)
	nd.Register("VerifC15Nums", VerifC15Nums)
	nd.Register("VerifC15Text", VerifC15Text)
	nd.Register("VerifC15Parse", VerifC15Parse)
	nd.Register("VerifC15ParseBig", VerifC15ParseBig)
	nd.Register("VerifC15SearchRes", VerifC15SearchRes)
	nd.Register("VerifC15Table", VerifC15Table)
}

const c15max = 0xffffffff

// c15static: r is "n" or "n:m" with 1 <= n <= m.
func c15static(start, stop uint32) bool {
	return nd.And(start != 0, nd.And(stop != 0, start <= stop))
}

// c15inv is the representation invariant: sorted, disjoint, non-adjacent static
// ranges, optionally followed by one dynamic value ("n:*" or "*").
func c15inv(s []SeqRange) bool {
	ok := true
	for i := range s {
		r := s[i]
		if i == len(s)-1 {
			ok = nd.And(ok, nd.Or(c15static(r.Start, r.Stop), r.Stop == 0))
			continue
		}
		next := s[i+1]
		ok = nd.And(ok, c15static(r.Start, r.Stop))
		gap := nd.And(r.Stop != c15max, r.Stop+1 < next.Start)
		star := nd.And(next.Start == 0, next.Stop == 0)
		ok = nd.And(ok, nd.Or(gap, star))
	}
	return ok
}

// c15member: linear reference membership for q != 0.
func c15member(s []SeqRange, q uint32) bool {
	in := false
	for _, r := range s {
		in = nd.Or(in, nd.And(r.Start != 0, nd.And(r.Start <= q, nd.Or(q <= r.Stop, r.Stop == 0))))
	}
	return in
}

func c15dynamic(s []SeqRange) bool {
	d := false
	for _, r := range s {
		d = nd.Or(d, r.Stop == 0)
	}
	return d
}

// c15inRange: RFC reading of a range given in either order, 0 standing for "*"
// (the largest number in use, i.e. +infinity for a finite probe).
func c15inRange(a, b, q uint32) bool {
	A := nd.IteU64(a == 0, 1<<32, uint64(a))
	B := nd.IteU64(b == 0, 1<<32, uint64(b))
	lo := nd.IteU64(A <= B, A, B)
	hi := nd.IteU64(A <= B, B, A)
	return nd.And(lo <= uint64(q), uint64(q) <= hi)
}

// c15sym builds a set of k ranges with symbolic endpoints and spare capacity extra.
func c15sym(k, extra int) SeqSet {
	s := make(SeqSet, k, k+extra)
	for i := range s {
		s[i] = SeqRange{Start: nd.Uint32(), Stop: nd.Uint32()}
	}
	return s
}

func c15copy(s SeqSet) []SeqRange {
	return append([]SeqRange(nil), s...)
}

// VerifC15Insert: one AddRange/AddNum from an arbitrary canonical set.
func VerifC15Insert() {
	k := nd.Concretize(nd.Choice(nd.Param("k") + 1))
	extra := nd.Concretize(nd.Choice(2))
	s := c15sym(k, extra)
	nd.Assume(c15inv(s))
	pre := c15copy(s)
	a, b := nd.Uint32(), nd.Uint32()
	single := nd.Bool()
	if single {
		b = a
		s.AddNum(a)
	} else {
		s.AddRange(a, b)
	}
	post := c15copy(s)
	nd.Reach("inserted")
	if len(post) > len(pre) {
		nd.Reach("grew")
	}
	if len(post) < len(pre) {
		nd.Reach("merged-several@k>=2")
	}
	nd.Note("pre", len(pre), "post", len(post))
	nd.Assert(c15inv(post), "insert-keeps-canonical")
	q := nd.Uint32()
	nd.Assume(q != 0)
	want := nd.Or(c15member(pre, q), c15inRange(a, b, q))
	nd.Assert(c15member(post, q) == want, "insert-membership-is-union")
	nd.Assert(s.Contains(q) == want, "contains-after-insert")
	nd.Assert(s.Dynamic() == nd.Or(c15dynamic(pre), nd.Or(a == 0, b == 0)), "dynamic-iff-star")
	nd.Assert(len(post) <= len(pre)+1, "insert-adds-at-most-one-range")
}

// VerifC15InsertUID: the same step through the UIDSet flavour.
func VerifC15InsertUID() {
	k := nd.Concretize(nd.Choice(nd.Param("k") + 1))
	s0 := c15sym(k, nd.Concretize(nd.Choice(2)))
	nd.Assume(c15inv(s0))
	pre := c15copy(s0)
	u := make(UIDSet, len(s0), cap(s0))
	for i, r := range s0 {
		u[i] = UIDRange{Start: UID(r.Start), Stop: UID(r.Stop)}
	}
	a, b := nd.Uint32(), nd.Uint32()
	if nd.Bool() {
		b = a
		u.AddNum(UID(a))
	} else {
		u.AddRange(UID(a), UID(b))
	}
	post := make([]SeqRange, len(u))
	for i, r := range u {
		post[i] = SeqRange{Start: uint32(r.Start), Stop: uint32(r.Stop)}
	}
	nd.Reach("inserted-uid")
	nd.Assert(c15inv(post), "uid-insert-keeps-canonical")
	q := nd.Uint32()
	nd.Assume(q != 0)
	want := nd.Or(c15member(pre, q), c15inRange(a, b, q))
	nd.Assert(c15member(post, q) == want, "uid-insert-membership-is-union")
	nd.Assert(u.Contains(UID(q)) == want, "uid-contains-after-insert")
	nd.Assert(u.Dynamic() == nd.Or(c15dynamic(pre), nd.Or(a == 0, b == 0)), "uid-dynamic-iff-star")
}

// VerifC15AddSet: union with another canonical set of <= 2 ranges.
func VerifC15AddSet() {
	k := nd.Concretize(nd.Choice(nd.Param("k") + 1))
	j := nd.Concretize(nd.Choice(nd.Param("j") + 1))
	s := c15sym(k, 0)
	t := c15sym(j, nd.Concretize(nd.Choice(2)))
	nd.Assume(c15inv(s))
	nd.Assume(c15inv(t))
	pre := c15copy(s)
	s.AddSet(t)
	post := c15copy(s)
	nd.Reach("addset")
	nd.Assert(c15inv(post), "addset-keeps-canonical")
	q := nd.Uint32()
	nd.Assume(q != 0)
	nd.Assert(c15member(post, q) == nd.Or(c15member(pre, q), c15member(t, q)), "addset-membership-is-union")
	nd.Assert(s.Dynamic() == nd.Or(c15dynamic(pre), c15dynamic(t)), "addset-dynamic")
	// sets are values: a later insertion into one of the two sets must not show
	// through in the other one (no shared backing store after the union)
	tval := c15copy(t)
	a, b := nd.Uint32(), nd.Uint32()
	if nd.Bool() {
		s.AddRange(a, b)
		nd.Assert(len(t) == len(tval), "addset-argument-changed-by-later-insertion-into-receiver")
		for i := range tval {
			nd.Assert(nd.And(t[i].Start == tval[i].Start, t[i].Stop == tval[i].Stop), "addset-argument-changed-by-later-insertion-into-receiver")
		}
	} else {
		t.AddRange(a, b)
		nd.Assert(len(s) == len(post), "addset-receiver-changed-by-later-insertion-into-argument")
		for i := range post {
			nd.Assert(nd.And(s[i].Start == post[i].Start, s[i].Stop == post[i].Stop), "addset-receiver-changed-by-later-insertion-into-argument")
		}
	}
}

// VerifC15Search: binary search membership vs the linear reference, q = 0 included.
func VerifC15Search() {
	k := nd.Concretize(nd.Choice(nd.Param("k") + 1))
	s := c15sym(k, 0)
	nd.Assume(c15inv(s))
	q := nd.Uint32()
	got := s.Contains(q)
	nd.Reach("searched")
	nd.Assert(got == nd.And(q != 0, c15member(s, q)), "contains-vs-linear")
	u := make(UIDSet, len(s))
	for i, r := range s {
		u[i] = UIDRange{Start: UID(r.Start), Stop: UID(r.Stop)}
	}
	nd.Assert(u.Contains(UID(q)) == got, "uid-contains-same")
	nd.Assert(u.Dynamic() == c15dynamic(s), "uid-dynamic")
}

// VerifC15Nums: enumeration of a static canonical set whose ranges are narrow but
// sit anywhere in the uint32 space (the step budget doubles as unwinding assertion).
func VerifC15Nums() {
	k := nd.Concretize(nd.Choice(nd.Param("k") + 1))
	w := uint32(nd.Param("w"))
	s := c15sym(k, 0)
	nd.Assume(c15inv(s))
	total := 0
	for _, r := range s {
		nd.Assume(r.Stop != 0) // static
		nd.Assume(r.Stop-r.Start < w)
		total += nd.Concretize(int(r.Stop-r.Start)) + 1
	}
	nums, ok := s.Nums()
	nd.Reach("enumerated")
	nd.Assert(ok, "nums-ok-on-static")
	nd.Assert(len(nums) == total, "nums-count")
	for i, n := range nums {
		nd.Assert(c15member(s, n), "nums-are-members")
		if i > 0 {
			nd.Assert(nums[i-1] < n, "nums-ascending")
		}
	}
	q := nd.Uint32()
	nd.Assume(q != 0)
	found := false
	for _, n := range nums {
		found = nd.Or(found, n == q)
	}
	nd.Assert(found == c15member(s, q), "nums-exactly-the-members")
	// dynamic sets refuse enumeration
	d := SeqSet{SeqRange{Start: nd.Uint32(), Stop: 0}}
	_, ok2 := d.Nums()
	nd.Assert(!ok2, "nums-refuses-dynamic")
}

var c15windows = [][2]uint32{{1, 1100}, {99990, 100010}, {999999990, 1000000010}, {2147483640, 2147483656}, {4294967280, 4294967295}}

// VerifC15Text: ParseSet(String(s)) == s for canonical sets.
func VerifC15Text() {
	k := nd.Concretize(nd.Choice(nd.Param("k")) + 1)
	s := c15sym(k, 0)
	nd.Assume(c15inv(s))
	// value window (decimal kernels over the full 32-bit range time out in every
	// installed solver: the registered bound is a set of windows, see checks/C15.json)
	win := c15windows[nd.Param("win")]
	lo, hi := win[0], win[1]
	for _, r := range s {
		nd.Assume(nd.Or(r.Start == 0, nd.And(lo <= r.Start, r.Start <= hi)))
		nd.Assume(nd.Or(r.Stop == 0, nd.And(lo <= r.Stop, r.Stop <= hi)))
	}
	txt := s.String()
	back, err := imapnum.ParseSet(txt)
	nd.Reach("roundtrip")
	nd.Note("txt", len(txt))
	nd.Assert(err == nil, "text-parses-back")
	if err != nil {
		return
	}
	nd.Assert(len(back) == len(s), "text-same-length")
	if len(back) != len(s) {
		return
	}
	for i := range s {
		nd.Assert(nd.And(back[i].Start == s[i].Start, back[i].Stop == s[i].Stop), "text-roundtrip-equal")
	}
}

// ---- parser vs grammar ------------------------------------------------------------

// c15refNum: nz-number (no leading zero, fits uint32) or "*" (returned as 0).
func c15refNum(v string) (uint32, bool) {
	if v == "*" {
		return 0, true
	}
	if len(v) == 0 || len(v) > 10 {
		return 0, false
	}
	var n uint64
	for i := 0; i < len(v); i++ {
		c := v[i]
		if c < '0' || c > '9' {
			return 0, false
		}
		if i == 0 && c == '0' {
			return 0, false
		}
		n = n*10 + uint64(c-'0')
	}
	if n > c15max {
		return 0, false
	}
	return uint32(n), true
}

// c15refParse: sequence-set recogniser; on success returns the element ranges as written.
func c15refParse(set string) ([][2]uint32, bool) {
	var out [][2]uint32
	start := 0
	for i := 0; i <= len(set); i++ {
		if i < len(set) && set[i] != ',' {
			continue
		}
		el := set[start:i]
		start = i + 1
		colon := -1
		for j := 0; j < len(el); j++ {
			if el[j] == ':' {
				colon = j
				break
			}
		}
		if colon < 0 {
			n, ok := c15refNum(el)
			if !ok {
				return nil, false
			}
			out = append(out, [2]uint32{n, n})
		} else {
			a, ok1 := c15refNum(el[:colon])
			if !ok1 {
				return nil, false
			}
			b, ok2 := c15refNum(el[colon+1:])
			if !ok2 {
				return nil, false
			}
			out = append(out, [2]uint32{a, b})
		}
	}
	return out, true
}

// VerifC15Parse: every byte string up to the bound: accepted iff the grammar accepts;
// on success same members, canonical, dynamic iff '*' occurs.
func VerifC15Parse() {
	n := nd.Concretize(nd.Choice(nd.Param("n") + 1))
	txt := nd.String(n)
	got, err := imapnum.ParseSet(txt)
	ref, ok := c15refParse(txt)
	nd.Reach("parsed")
	nd.Note("in", txt)
	nd.Note("ok", err == nil, ok)
	nd.Assert((err == nil) == ok, "parse-accepts-iff-grammar")
	if err != nil || !ok {
		return
	}
	nd.Reach("parsed-ok@n>=1")
	post := make([]SeqRange, len(got))
	for i, r := range got {
		post[i] = SeqRange{Start: r.Start, Stop: r.Stop}
	}
	nd.Assert(c15inv(post), "parse-result-canonical")
	q := nd.Uint32()
	nd.Assume(q != 0)
	want := false
	star := false
	for _, r := range ref {
		want = nd.Or(want, c15inRange(r[0], r[1], q))
		star = nd.Or(star, nd.Or(r[0] == 0, r[1] == 0))
	}
	nd.Assert(c15member(post, q) == want, "parse-membership")
	nd.Assert(got.Dynamic() == star, "parse-dynamic-iff-star")
}

// VerifC15ParseBig: 9- and 10-digit numbers: overflow is an error, otherwise the value is exact.
func VerifC15ParseBig() {
	n := nd.Param("digits")
	b := make([]byte, n)
	var v uint64
	for i := range b {
		d := nd.Byte()
		nd.Assume(d <= 9)
		if i == 0 {
			nd.Assume(d != 0)
		}
		b[i] = '0' + d
		v = v*10 + uint64(d)
	}
	got, err := imapnum.ParseSet(string(b))
	nd.Reach("parsed-big")
	nd.Assert((err == nil) == (v <= c15max), "big-number-accept-iff-fits")
	if err == nil {
		nd.Assert(len(got) == 1, "big-number-one-range")
		if len(got) == 1 {
			nd.Assert(nd.And(uint64(got[0].Start) == v, uint64(got[0].Stop) == v), "big-number-exact")
		}
	}
}

// VerifC15SearchRes: the "$" marker.
func VerifC15SearchRes() {
	r := SearchRes()
	nd.Reach("searchres")
	nd.Assert(r.Dynamic(), "searchres-dynamic")
	nd.Assert(r.String() == "$", "searchres-string")
	nd.Assert(IsSearchRes(r), "searchres-is")
	nd.Assert(!IsSearchRes(UIDSet(nil)), "nil-uidset-is-not-searchres")
	nd.Assert(!IsSearchRes(make(UIDSet, 0, 1)), "fresh-empty-uidset-is-not-searchres")
	nd.Assert(!IsSearchRes(SeqSet(nil)), "nil-seqset-is-not-searchres")
	k := nd.Concretize(nd.Choice(3))
	u := make(UIDSet, k)
	for i := range u {
		u[i] = UIDRange{Start: UID(nd.Uint32()), Stop: UID(nd.Uint32())}
	}
	nd.Assert(!IsSearchRes(u), "other-uidset-is-not-searchres")
	var e UIDSet
	nd.Assert(!e.Dynamic(), "empty-not-dynamic")
	nd.Assert(e.String() == "", "empty-string")
}

// ---- table (pins oracle + engine to the repository's own test vectors) ---------------

var c15table = []struct {
	in  string
	out string
	ok  bool
}{
	{"1", "1", true}, {"*", "*", true}, {"1:2", "1:2", true}, {"2:1", "1:2", true}, {"1:*", "1:*", true},
	{"*:1", "1:*", true}, {"*:*", "*", true}, {"1,2", "1:2", true}, {"1,3", "1,3", true}, {"3,1", "1,3", true},
	{"1:3,2:4", "1:4", true}, {"1,3,2", "1:3", true}, {"5:*,7", "5:*", true}, {"1,*", "1,*", true}, {"*,1", "1,*", true},
	{"4294967295", "4294967295", true}, {"4294967294:4294967295", "4294967294:4294967295", true},
	{"4294967294,4294967295", "4294967294:4294967295", true}, {"4294967295:*", "4294967295:*", true},
	{"1:5,3:7,10", "1:7,10", true}, {"2,4,6,3,5", "2:6", true},
	{"", "", false}, {"0", "", false}, {"01", "", false}, {"1:", "", false}, {":1", "", false}, {"1,,2", "", false},
	{"1:2:3", "", false}, {"a", "", false}, {"1 ", "", false}, {"4294967296", "", false}, {"-1", "", false}, {"+1", "", false},
	{"1,", "", false}, {",1", "", false}, {"**", "", false},
}

func VerifC15Table() {
	i := nd.Concretize(nd.Choice(len(c15table)))
	t := c15table[i]
	got, err := imapnum.ParseSet(t.in)
	_, refok := c15refParse(t.in)
	nd.Reach("row")
	nd.Note("row", i, err == nil, refok, got.String())
	nd.Assert((err == nil) == t.ok, "table-parse-verdict")
	nd.Assert(refok == t.ok, "table-oracle-verdict")
	if t.ok && err == nil {
		nd.Assert(got.String() == t.out, "table-canonical-text")
		post := make([]SeqRange, len(got))
		for j, r := range got {
			post[j] = SeqRange{Start: r.Start, Stop: r.Stop}
		}
		nd.Assert(c15inv(post), "table-canonical")
	}
}
