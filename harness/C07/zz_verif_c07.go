package imapserver

// Harness for C07 (sequence-number translation). One inductive step from an arbitrary
// session state (client count c0, pending queue Q, true count N) that satisfies the
// representation invariant every real history establishes.

import (
	"github.com/emersion/go-imap/v2"
	nd "github.com/emersion/go-imap/v2/internal/zzverif/nd"
)

func init() {
	nd.Register("VerifC07Translate", VerifC07Translate)
	nd.Register("VerifC07Poll", VerifC07Poll)
	nd.Register("VerifC07Queue", VerifC07Queue)
	nd.Register("VerifC07QueueStep", VerifC07QueueStep)
	nd.Register("VerifC07Table", VerifC07Table)
}

// c07state builds a session tracker with a symbolic queue of exactly l entries and
// assumes the invariant: replaying Q from c0 is legal and ends at N.
func c07state(l int, small bool) (st *SessionTracker, c0 uint32, n uint32) {
	c0 = nd.Uint32()
	if small {
		nd.Assume(c0 <= 9)
	}
	q := make([]trackerUpdate, l)
	cnt := c0
	for i := range q {
		switch nd.Concretize(nd.Choice(4)) {
		case 0:
			e := nd.Uint32()
			nd.Assume(e >= 1)
			nd.Assume(e <= cnt)
			q[i].expunge = e
			cnt--
		case 1:
			m := nd.Uint32()
			nd.Assume(m >= cnt)
			nd.Assume(m != 0)
			if small {
				nd.Assume(m <= 9)
			}
			q[i].numMessages = m
			q[i].prevNumMessages = cnt // recorded by MailboxTracker.queueUpdate (checked in VerifC07Queue)
			cnt = m
		case 2:
			q[i].mailboxFlags = []imap.Flag{imap.FlagSeen}
		case 3:
			s := nd.Uint32()
			nd.Assume(s >= 1)
			nd.Assume(s <= cnt)
			q[i].fetch = &trackerUpdateFetch{seqNum: s, uid: imap.UID(s), flags: []imap.Flag{imap.FlagSeen}}
		}
	}
	mt := NewMailboxTracker(cnt)
	st = mt.NewSession()
	st.queue = q
	return st, c0, cnt
}

// c07decodeRef: apply the pending expunges in order to client number p (branch-free).
func c07decodeRef(q []trackerUpdate, p uint32) uint32 {
	x := p
	dead := false
	for _, u := range q {
		if u.expunge == 0 {
			continue
		}
		dead = nd.Or(dead, x == u.expunge)
		x = nd.IteU32(nd.And(!dead, x > u.expunge), x-1, x)
	}
	return nd.IteU32(dead, 0, x)
}

// VerifC07Translate: client->server and server->client translation against the forward
// replay, for every queue shape of length l.
func VerifC07Translate() {
	l := nd.Concretize(nd.Choice(nd.Param("l") + 1))
	st, c0, n := c07state(l, false)
	q := append([]trackerUpdate(nil), st.queue...)
	nd.Reach("state")
	c07checkTranslate(st, q, c0, n)
}

// c07checkTranslate: the translation laws of st against the model (client count c0, model
// queue q, true count n).
func c07checkTranslate(st *SessionTracker, q []trackerUpdate, c0, n uint32) {
	// decode
	p := nd.Uint32()
	nd.Assume(p >= 1)
	nd.Assume(p <= c0)
	want := c07decodeRef(q, p)
	got := st.DecodeSeqNum(p)
	nd.Assert(got == want, "decode-matches-forward-replay")
	nd.Assert(nd.Or(want == 0, want <= n), "decoded-number-within-mailbox")
	nd.Assert(st.DecodeSeqNum(0) == 0, "decode-zero-is-zero")
	// encode
	m := nd.Uint32()
	enc := st.EncodeSeqNum(m)
	nd.Assert(nd.Implies(nd.Or(m == 0, m > n), enc == 0), "encode-nonexistent-is-zero")
	nd.Assert(nd.Implies(enc != 0, nd.And(enc >= 1, enc <= c0)), "encoded-number-within-client-view")
	back := c07decodeRef(q, enc)
	nd.Assert(nd.Implies(enc != 0, back == m), "encode-then-decode-identifies-same-message")
	nd.Assert(nd.Implies(nd.And(want != 0, want == m), enc == p), "decode-then-encode-identifies-same-message")
}

// VerifC07QueueStep: the inductive step for the Queue* operations: from an arbitrary
// session state one real MailboxTracker.Queue* call is made; afterwards the translation
// laws hold against the model queue extended by that update (whatever the tracker's own
// queue looks like), and a poll that may report everything brings the client to the true
// count.
func VerifC07QueueStep() {
	l := nd.Concretize(nd.Choice(nd.Param("l") + 1))
	st, c0, n := c07state(l, false)
	mt := st.mailbox
	q := append([]trackerUpdate(nil), st.queue...)
	x := nd.Uint32()
	switch nd.Concretize(nd.Choice(4)) {
	case 0:
		nd.Assume(x >= 1)
		nd.Assume(x <= n)
		mt.QueueExpunge(x)
		q = append(q, trackerUpdate{expunge: x})
		n--
	case 1:
		nd.Assume(x >= n)
		nd.Assume(x != 0)
		mt.QueueNumMessages(x)
		q = append(q, trackerUpdate{numMessages: x})
		n = x
	case 2:
		mt.QueueMailboxFlags(nil)
	case 3:
		nd.Assume(x >= 1)
		nd.Assume(x <= n)
		mt.QueueMessageFlags(x, imap.UID(x), nil, nil)
	}
	nd.Reach("queued-from-arbitrary-state")
	nd.Assert(mt.numMessages == n, "mailbox-count-after-update")
	c07checkTranslate(st, q, c0, n)
	// the session's own queue, replayed from the client count, ends at the true count
	cnt := c0
	for _, u := range st.queue {
		if u.expunge != 0 {
			nd.Assert(nd.And(u.expunge >= 1, u.expunge <= cnt), "queued-expunge-outside-client-view")
			cnt--
		} else if u.numMessages != 0 {
			nd.Assert(u.numMessages >= cnt, "queued-exists-shrinks-client-view")
			cnt = u.numMessages
		}
	}
	nd.Assert(cnt == n, "pending-updates-do-not-lead-to-the-true-mailbox")
}

func c07digit(v uint32) string { return string([]byte{'0' + byte(v)}) }

// VerifC07Poll: the emitted updates are exactly the allowed prefix of the queue, in order,
// and the rest stays queued. Values are single digits so that the wire text is short.
func VerifC07Poll() {
	l := nd.Concretize(nd.Choice(nd.Param("l") + 1))
	st, _, _ := c07state(l, true)
	q := append([]trackerUpdate(nil), st.queue...)
	allow := nd.Bool()
	v := vNewServer(nil, false)
	vc := &vConn{}
	c := v.vDirectConn(vc, imap.ConnStateSelected)
	w := &UpdateWriter{conn: c, allowExpunge: allow}
	err := st.Poll(w, allow)
	nd.Reach("polled")
	nd.Assert(err == nil, "poll-no-error")
	// expected prefix
	stop := len(q)
	if !allow {
		for i, u := range q {
			if u.expunge != 0 {
				stop = i
				break
			}
		}
	}
	var want []string
	for _, u := range q[:stop] {
		switch {
		case u.expunge != 0:
			want = append(want, "* "+c07digit(u.expunge)+" EXPUNGE")
		case u.numMessages != 0:
			want = append(want, "* "+c07digit(u.numMessages)+" EXISTS")
		case u.mailboxFlags != nil:
			want = append(want, "* FLAGS (\\Seen)")
		default:
			want = append(want, "* "+c07digit(u.fetch.seqNum)+" FETCH (UID "+c07digit(uint32(u.fetch.uid))+" FLAGS (\\Seen))")
		}
	}
	lines, rest := vLines(vc.out)
	nd.Note("out", string(vc.out))
	nd.Assert(rest == "", "poll-output-whole-lines")
	nd.Assert(len(lines) == len(want), "poll-emits-exactly-the-allowed-prefix")
	if len(lines) == len(want) {
		for i := range want {
			nd.Assert(lines[i] == want[i], "poll-updates-in-order")
		}
	}
	nd.Assert(len(st.queue) == len(q)-stop, "poll-keeps-the-rest-queued")
	if len(st.queue) == len(q)-stop {
		for i := range st.queue {
			r, o := st.queue[i], q[stop+i]
			same := nd.And(r.expunge == o.expunge, r.numMessages == o.numMessages)
			nd.Assert(nd.And(same, nd.And((r.fetch == nil) == (o.fetch == nil), (r.mailboxFlags == nil) == (o.mailboxFlags == nil))), "poll-rest-unchanged")
		}
	}
	if !allow {
		for _, ln := range lines {
			nd.Assert(!(len(ln) > 8 && ln[len(ln)-7:] == "EXPUNGE"), "no-expunge-when-disallowed")
		}
	}
}

// VerifC07Queue: fan-out of queued updates to sessions (source skipped, closed sessions
// dropped), mailbox count bookkeeping and the documented panics on illegal updates.
func VerifC07Queue() {
	n := nd.Uint32()
	mt := NewMailboxTracker(n)
	s1 := mt.NewSession()
	s2 := mt.NewSession()
	s3 := mt.NewSession()
	s3.Close()
	nd.Assert(s3.mailbox == nil, "closed-session-detached")
	op := nd.Concretize(nd.Choice(4))
	x := nd.Uint32()
	legal := true
	switch op {
	case 0:
		legal = nd.And(x >= 1, x <= n)
	case 1:
		legal = nd.Or(x == 0, x >= n) // 0 is indistinguishable from "no update": tolerated
	}
	panicked := false
	func() {
		defer func() {
			if recover() != nil {
				panicked = true
			}
		}()
		switch op {
		case 0:
			mt.QueueExpunge(x)
		case 1:
			mt.QueueNumMessages(x)
		case 2:
			mt.QueueMailboxFlags(nil)
		case 3:
			mt.QueueMessageFlags(x, imap.UID(x), nil, s1)
		}
	}()
	nd.Reach("queued")
	nd.Assert(panicked == !legal, "illegal-update-panics-legal-does-not")
	if panicked {
		nd.Assert(nd.And(len(s1.queue) == 0, len(s2.queue) == 0), "illegal-update-not-queued")
		nd.Assert(mt.numMessages == n, "illegal-update-leaves-count")
		return
	}
	nd.Assert(len(s3.queue) == 0, "closed-session-gets-nothing")
	nd.Assert(len(s2.queue) == 1, "other-session-gets-update")
	if op == 3 {
		nd.Assert(len(s1.queue) == 0, "source-session-skipped")
	} else {
		nd.Assert(len(s1.queue) == 1, "every-session-gets-update")
	}
	switch op {
	case 0:
		nd.Assert(mt.numMessages == n-1, "expunge-decrements-count")
		nd.Assert(s2.queue[0].expunge == x, "expunge-value-queued")
	case 1:
		nd.Assert(mt.numMessages == nd.IteU32(x == 0, n, x), "nummessages-sets-count")
		nd.Assert(s2.queue[0].numMessages == x, "nummessages-value-queued")
		nd.Assert(nd.Implies(x != 0, s2.queue[0].prevNumMessages == n), "nummessages-records-previous-count")
	case 2:
		nd.Assert(mt.numMessages == n, "flags-keep-count")
		nd.Assert(s2.queue[0].mailboxFlags != nil, "nil-mailbox-flags-become-empty-list")
	case 3:
		nd.Assert(nd.And(s2.queue[0].fetch != nil, s2.queue[0].fetch.seqNum == x), "fetch-value-queued")
	}
}

// ---- the repository's own table (tracker_test.go), through both translations ----------

type c07row struct {
	pending []trackerUpdate
	client  uint32
	server  uint32
}

var c07table = []c07row{
	{nil, 20, 20}, {nil, 42, 42}, {nil, 43, 0}, {nil, 0, 43},
	{[]trackerUpdate{{expunge: 20}}, 20, 0},
	{[]trackerUpdate{{expunge: 20}}, 10, 10},
	{[]trackerUpdate{{expunge: 10}}, 20, 19},
	{[]trackerUpdate{{numMessages: 43}}, 0, 43},
	{[]trackerUpdate{{numMessages: 43}}, 42, 42},
	{[]trackerUpdate{{expunge: 42}, {numMessages: 42}}, 42, 0},
	{[]trackerUpdate{{expunge: 42}, {numMessages: 42}}, 0, 42},
	{[]trackerUpdate{{numMessages: 43}, {expunge: 42}}, 42, 0},
	{[]trackerUpdate{{numMessages: 43}, {expunge: 42}}, 0, 42},
	{[]trackerUpdate{{expunge: 3}, {expunge: 1}}, 2, 1},
	{[]trackerUpdate{{expunge: 3}, {expunge: 1}}, 4, 2},
}

func VerifC07Table() {
	i := nd.Concretize(nd.Choice(len(c07table)))
	row := c07table[i]
	mt := NewMailboxTracker(42)
	st := mt.NewSession()
	for _, u := range row.pending {
		switch {
		case u.expunge != 0:
			mt.QueueExpunge(u.expunge)
		case u.numMessages != 0:
			mt.QueueNumMessages(u.numMessages)
		}
	}
	nd.Reach("row")
	nd.Note("row", i, st.DecodeSeqNum(row.client), st.EncodeSeqNum(row.server))
	if row.client != 0 {
		nd.Assert(st.DecodeSeqNum(row.client) == row.server, "table-decode")
		if row.client <= 42 {
			nd.Assert(c07decodeRef(st.queue, row.client) == row.server, "table-decode-oracle")
		}
	}
	if row.server != 0 {
		nd.Assert(st.EncodeSeqNum(row.server) == row.client, "table-encode")
	}
}
