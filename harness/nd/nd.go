// Package nd is the nondeterminism / assertion API used by the verification
// harnesses. This file is injected into the repository's module through a build
// overlay (it never exists on disk under /repo).
//
// Under the symbolic executor (gosym) every function below is intercepted by name:
// the bodies here are NOT executed there. Compiled natively (replay of a solver
// counterexample, translator validation) the functions read the next value of a
// concrete vector loaded from the file named by $VERIF_REPLAY.
package nd

import (
	"fmt"
	"os"
	"runtime"
	"strconv"
	"strings"
)

type Violation struct{ Label string }
type AssumeFailed struct{}

var (
	vec     []uint64
	pos     int
	params  = map[string]int{}
	notes   []string
	reached []string
	entries = map[string]func(){}
)

// Register makes a harness entry point known to the native replay runner.
func Register(name string, f func()) { entries[name] = f }

func next() uint64 {
	var v uint64
	if pos < len(vec) {
		v = vec[pos]
	}
	pos++
	return v
}

func Byte() byte     { return byte(next()) }
func Bool() bool     { return next()&1 == 1 }
func Uint16() uint16 { return uint16(next()) }
func Uint32() uint32 { return uint32(next()) }
func Uint64() uint64 { return next() }
func Int64() int64   { return int64(next()) }
func Int() int       { return int(next()) }
func Rune() rune     { return rune(int32(next())) }

// Choice returns a value in [0,n).
func Choice(n int) int { return int(next() % uint64(n)) }

// Bytes returns n fresh bytes.
func Bytes(n int) []byte {
	b := make([]byte, n)
	for i := range b {
		b[i] = Byte()
	}
	return b
}

// String returns a string of n fresh bytes.
func String(n int) string { return string(Bytes(n)) }

func Assume(b bool) {
	if !b {
		panic(AssumeFailed{})
	}
}

func Assert(b bool, label string) {
	if !b {
		panic(Violation{label})
	}
}

// Recover is deferred at the top of every goroutine a harness starts (and of callbacks
// the code under test runs on its own goroutines): natively it turns a failed
// Assert/Assume there into a recorded outcome instead of crashing the process. Under the
// executor assertions never panic, so it does nothing.
func Recover() {
	switch r := recover().(type) {
	case nil:
	case Violation:
		if sideOutcome == "" {
			sideOutcome = "violation " + r.Label
		}
	case AssumeFailed:
		if sideOutcome == "" {
			sideOutcome = "assume-failed"
		}
	default:
		if sideOutcome == "" {
			sideOutcome = "panic " + strings.ReplaceAll(fmt.Sprint(r), "\n", " ")
		}
	}
}

var sideOutcome string

// Fail is an unconditional violation.
func Fail(label string) { panic(Violation{label}) }

// Reach marks a point that must be reachable (vacuity witness).
func Reach(label string) { reached = append(reached, label) }

// Param returns a concrete per-tier parameter of the check configuration.
func Param(name string) int {
	v, ok := params[name]
	if !ok {
		panic("nd: unknown parameter " + name)
	}
	return v
}

// Non-branching boolean connectives (under the executor they build one term
// instead of forking the path).
func And(a, b bool) bool     { return a && b }
func Or(a, b bool) bool      { return a || b }
func Not(a bool) bool        { return !a }
func Implies(a, b bool) bool { return !a || b }
func Iff(a, b bool) bool     { return a == b }
func IteInt(c bool, a, b int) int {
	if c {
		return a
	}
	return b
}
func IteU32(c bool, a, b uint32) uint32 {
	if c {
		return a
	}
	return b
}
func IteU64(c bool, a, b uint64) uint64 {
	if c {
		return a
	}
	return b
}
func IteByte(c bool, a, b byte) byte {
	if c {
		return a
	}
	return b
}
func IteBool(c bool, a, b bool) bool {
	if c {
		return a
	}
	return b
}

// Concretize forks over the feasible values of x and returns a concrete one.
func Concretize(x int) int { return x }

// ConcretizeString forks until every byte of s is concrete.
func ConcretizeString(s string) string { return s }

// Goroutines returns the number of goroutines, other than the calling one, that are still
// alive inside the repository's code (natively: whose stack mentions the module path;
// under the executor: interpreted goroutines that have not finished).
func Goroutines() int {
	buf := make([]byte, 1<<20)
	buf = buf[:runtime.Stack(buf, true)]
	n := 0
	for i, g := range strings.Split(string(buf), "\n\n") {
		if i == 0 {
			continue // the caller
		}
		if strings.Contains(g, "github.com/emersion/go-imap/v2") {
			n++
		}
	}
	return n
}

// IsSymbolic reports whether the run is symbolic (false natively).
func IsSymbolic() bool { return false }

// Note records an observable for translator validation / evidence samples.
func Note(key string, vals ...interface{}) {
	var sb strings.Builder
	sb.WriteString(key)
	sb.WriteString("=")
	for i, v := range vals {
		if i > 0 {
			sb.WriteString(",")
		}
		sb.WriteString(fmtVal(v))
	}
	notes = append(notes, sb.String())
}

func fmtVal(v interface{}) string {
	switch v := v.(type) {
	case nil:
		return "nil"
	case bool:
		if v {
			return "true"
		}
		return "false"
	case int:
		return strconv.FormatInt(int64(v), 10)
	case int8:
		return strconv.FormatInt(int64(v), 10)
	case int16:
		return strconv.FormatInt(int64(v), 10)
	case int32:
		return strconv.FormatInt(int64(v), 10)
	case int64:
		return strconv.FormatInt(v, 10)
	case uint:
		return strconv.FormatUint(uint64(v), 10)
	case uint8:
		return strconv.FormatUint(uint64(v), 10)
	case uint16:
		return strconv.FormatUint(uint64(v), 10)
	case uint32:
		return strconv.FormatUint(uint64(v), 10)
	case uint64:
		return strconv.FormatUint(v, 10)
	case string:
		return hexq(v)
	case []byte:
		return hexq(string(v))
	case error:
		return "err"
	}
	return "?"
}

func hexq(s string) string {
	const hexd = "0123456789abcdef"
	b := make([]byte, 0, len(s)+2)
	b = append(b, '"')
	for i := 0; i < len(s); i++ {
		c := s[i]
		if c >= 0x20 && c < 0x7f && c != '"' && c != '\\' {
			b = append(b, c)
		} else {
			b = append(b, '\\', 'x', hexd[c>>4], hexd[c&15])
		}
	}
	b = append(b, '"')
	return string(b)
}

// ---------------------------------------------------------------------------
// Native replay runner.
//
// File format (line oriented):
//   case <entry>
//   param <name> <int>
//   val <uint64>
//   ...
// Output (stdout), per case:
//   VERIF-CASE <i> <entry>
//   VERIF-NOTE <note>
//   VERIF-REACH <label>
//   VERIF-OUTCOME ok | violation <label> | assume-failed | panic <msg>

type caseSpec struct {
	entry  string
	params map[string]int
	vals   []uint64
}

func loadCases(path string) ([]caseSpec, error) {
	data, err := os.ReadFile(path)
	if err != nil {
		return nil, err
	}
	var cases []caseSpec
	for _, line := range strings.Split(string(data), "\n") {
		f := strings.Fields(line)
		if len(f) == 0 {
			continue
		}
		switch f[0] {
		case "case":
			cases = append(cases, caseSpec{entry: f[1], params: map[string]int{}})
		case "param":
			n, _ := strconv.Atoi(f[2])
			cases[len(cases)-1].params[f[1]] = n
		case "val":
			n, _ := strconv.ParseUint(f[1], 10, 64)
			c := &cases[len(cases)-1]
			c.vals = append(c.vals, n)
		}
	}
	return cases, nil
}

func runCase(i int, c caseSpec) {
	vec, pos, params, notes, reached = c.vals, 0, c.params, nil, nil
	sideOutcome = ""
	fmt.Printf("VERIF-CASE %d %s\n", i, c.entry)
	f := entries[c.entry]
	if f == nil {
		fmt.Printf("VERIF-OUTCOME error unknown entry %s\n", c.entry)
		return
	}
	outcome := "ok"
	func() {
		defer func() {
			r := recover()
			switch r := r.(type) {
			case nil:
			case Violation:
				outcome = "violation " + r.Label
			case AssumeFailed:
				outcome = "assume-failed"
			default:
				outcome = "panic " + strings.ReplaceAll(fmt.Sprint(r), "\n", " ")
			}
		}()
		f()
	}()
	if sideOutcome != "" && (outcome == "ok" || !strings.HasPrefix(outcome, "violation")) {
		outcome = sideOutcome
	}
	for _, n := range notes {
		fmt.Printf("VERIF-NOTE %s\n", n)
	}
	for _, r := range reached {
		fmt.Printf("VERIF-REACH %s\n", r)
	}
	fmt.Printf("VERIF-OUTCOME %s\n", outcome)
	os.Stdout.Sync()
}

// RunReplay runs every case of $VERIF_REPLAY. It reports whether the file could be read.
func RunReplay() bool {
	path := os.Getenv("VERIF_REPLAY")
	if path == "" {
		fmt.Println("VERIF-ERROR VERIF_REPLAY not set")
		return false
	}
	cases, err := loadCases(path)
	if err != nil {
		fmt.Println("VERIF-ERROR", err)
		return false
	}
	for i, c := range cases {
		runCase(i, c)
	}
	fmt.Println("VERIF-DONE")
	return true
}
