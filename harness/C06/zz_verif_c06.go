package imapserver

// Harness for C06 (server survives arbitrary input and disconnects, cleaning up once).

import (
	"io"

	"github.com/emersion/go-imap/v2"
	nd "github.com/emersion/go-imap/v2/internal/zzverif/nd"
)

func init() {
	nd.Register("VerifC06Bytes", VerifC06Bytes)
	nd.Register("VerifC06Cut", VerifC06Cut)
	nd.Register("VerifC06Limits", VerifC06Limits)
	nd.Register("VerifC06Nesting", VerifC06Nesting)
}

// grammar contexts: the concrete prefix puts the parser somewhere, then the symbolic window follows
var c06ctx = []struct {
	prefix string
	state  int // 0 not authenticated, 1 authenticated, 2 selected
}{
	{"", 0}, {"A1 ", 0}, {"A1 LOGIN ", 0}, {"A1 LOGIN u ", 0}, {"A1 LOGIN {", 0}, {"A1 AUTHENTICATE ", 0},
	{"A1 AUTHENTICATE PLAIN\r\n", 0}, {"A1 AUTHENTICATE PLAIN ", 0}, {"A1 STARTTLS", 0},
	{"A1 SELECT ", 1}, {"A1 LIST ", 1}, {"A1 LIST \"\" ", 1}, {"A1 LIST (", 1}, {"A1 LIST \"\" * RETURN (", 1},
	{"A1 LIST \"\" * RETURN (STATUS (", 1}, {"A1 STATUS m (", 1}, {"A1 CREATE m (", 1}, {"A1 ENABLE ", 1},
	{"A1 APPEND m ", 1}, {"A1 APPEND m (", 1}, {"A1 APPEND m \"", 1}, {"A1 APPEND m {", 1}, {"A1 IDLE\r\n", 1},
	{"A1 RENAME a ", 1}, {"A1 UID ", 1},
	{"A1 FETCH ", 2}, {"A1 FETCH 1 ", 2}, {"A1 FETCH 1 (", 2}, {"A1 FETCH 1 BODY[", 2}, {"A1 FETCH 1 BODY[HEADER.FIELDS (", 2},
	{"A1 FETCH 1 BODY[]<", 2}, {"A1 FETCH 1 BINARY[", 2}, {"A1 FETCH 1 BINARY.SIZE[", 2},
	{"A1 STORE 1 ", 2}, {"A1 STORE 1 +FLAGS (", 2}, {"A1 COPY 1 ", 2}, {"A1 MOVE ", 2}, {"A1 UID EXPUNGE ", 2},
	{"A1 SEARCH ", 2}, {"A1 SEARCH RETURN (", 2}, {"A1 SEARCH OR ", 2}, {"A1 SEARCH HEADER ", 2}, {"A1 SEARCH NOT ", 2},
	{"A1 SEARCH CHARSET ", 2}, {"A1 SEARCH SINCE ", 2}, {"A1 SEARCH (", 2},
}

func c06run(in []byte, state int, silent bool) (*vServer, *vConn) {
	caps := imap.CapSet{imap.CapIMAP4rev1: {}, imap.CapIMAP4rev2: {}, imap.CapNamespace: {}, imap.CapMove: {}, imap.CapLiteralPlus: {}, imap.CapESearch: {}, imap.CapBinary: {}}
	v := vNewServer(caps, true)
	v.preAuth = state > 0
	pre := ""
	if state == 2 {
		pre = "S0 SELECT m\r\n"
	}
	vc := &vConn{in: append([]byte(pre), in...), silent: silent}
	c := newConn(vc, v.srv)
	c.serve()
	return v, vc
}

func c06after(v *vServer, vc *vConn, label string) {
	nd.Assert(v.log.panics == 0, label+"-no-panic")
	nd.Assert(v.sess.closed == 1, label+"-session-closed-exactly-once")
	nd.Assert(vc.closed > 0, label+"-connection-closed")
	nd.Assert(len(v.srv.conns) == 0, label+"-connection-unregistered")
	// nothing of the connection stays alive once serve has returned: a backend Idle call
	// has been told to stop and has returned
	vSettle(func() bool { return v.sess.idleReturned == v.sess.idleStarted })
	nd.Assert(v.sess.idleReturned == v.sess.idleStarted, label+"-backend-idle-still-running-after-connection-ended")
	// ... and no goroutine of the connection is left behind (e.g. blocked on a channel
	// nobody will ever read)
	vSettle(func() bool { return nd.Goroutines() == 0 })
	nd.Assert(nd.Goroutines() == 0, label+"-goroutine-left-alive-after-connection-ended")
	_, rest := vLines(vc.out)
	nd.Assert(rest == "" || vc.writeErr != nil, label+"-output-whole-lines")
	for _, o := range v.sess.calls {
		if o.op == "Login" || o.op == "Create" || o.op == "Select" || o.op == "Rename" {
			nd.Assert(len(o.s1) <= 4096 && len(o.s2) <= 4096, label+"-buffered-string-over-4096")
		}
	}
}

// VerifC06Bytes: every grammar context followed by a window of arbitrary bytes, then either
// end of stream or CRLF + end of stream.
func VerifC06Bytes() {
	ci := nd.Concretize(nd.Choice(len(c06ctx)))
	ctx := c06ctx[ci]
	k := nd.Concretize(nd.Choice(nd.Param("k") + 1))
	w := nd.Bytes(k)
	in := append([]byte(ctx.prefix), w...)
	if nd.Bool() {
		in = append(in, '\r', '\n')
	}
	v, vc := c06run(in, ctx.state, false)
	nd.Reach("survived")
	nd.Note("ctx", ctx.prefix, w)
	c06after(v, vc, "bytes")
}

var c06transcripts = []struct {
	text  string
	state int
}{
	{"A1 LOGIN u p\r\nA2 SELECT m\r\nA3 FETCH 1 (FLAGS BODY[])\r\nA4 LOGOUT\r\n", 0},
	{"A1 APPEND m (\\Seen) {5}\r\nhello\r\nA2 NOOP\r\n", 1},
	{"A1 APPEND m {5+}\r\nhello\r\nA2 STATUS m (MESSAGES)\r\n", 1},
	{"A1 AUTHENTICATE PLAIN\r\nAHUAcA==\r\nA2 CAPABILITY\r\n", 0},
	{"A1 IDLE\r\nDONE\r\nA2 SEARCH OR SEEN (NOT DELETED) TEXT {2}\r\nhi\r\nA3 LOGOUT\r\n", 2},
	{"A1 LOGIN {1}\r\nu {1+}\r\np\r\nA2 LIST \"\" (a b) RETURN (STATUS (MESSAGES))\r\n", 0},
}

// VerifC06Cut: valid multi-command transcripts cut at every byte offset, the peer then
// closing (EOF), resetting (error) or going silent (read timeout).
func VerifC06Cut() {
	ti := nd.Concretize(nd.Choice(len(c06transcripts)))
	tr := c06transcripts[ti]
	cut := nd.Concretize(nd.Choice(len(tr.text) + 1))
	kind := nd.Concretize(nd.Choice(4))
	in := []byte(tr.text[:cut])
	caps := imap.CapSet{imap.CapIMAP4rev1: {}, imap.CapLiteralPlus: {}}
	v := vNewServer(caps, true)
	v.preAuth = tr.state > 0
	pre := ""
	if tr.state == 2 {
		pre = "S0 SELECT m\r\n"
	}
	vc := &vConn{in: append([]byte(pre), in...)}
	switch kind {
	case 1:
		vc.readErr = io.ErrUnexpectedEOF
		vc.errAt = len(vc.in)
	case 2:
		vc.silent = true
	case 3:
		// the peer is gone for writing: the server's output fails from some byte on
		// (0 = before the greeting)
		vc.writeErr = io.ErrClosedPipe
		vc.writeAt = []int{0, 7, 60, 200}[nd.Concretize(nd.Choice(4))]
	}
	c := newConn(vc, v.srv)
	c.serve()
	nd.Reach("cut")
	nd.Note("cut", ti, cut, kind)
	c06after(v, vc, "cut")
}

// VerifC06Limits: literal announcements of every interesting size in buffered contexts and
// APPEND, with and without LITERAL+ advertised, the payload following or not: no
// continuation request for a refused size, nothing over 4096 bytes buffered.
func VerifC06Limits() {
	sizes := []string{"0", "4096", "4097", "104857600", "104857601", "9223372036854775807", "9223372036854775808", "99999999999999999999"}
	si := nd.Concretize(nd.Choice(len(sizes)))
	sz := sizes[si]
	plus := nd.Bool()
	litPlus := nd.Bool()
	which := nd.Concretize(nd.Choice(3))
	// the announced octets actually follow (only for the sizes that fit a test)
	payload := si <= 2 && nd.Bool()
	hdr := "{" + sz
	if plus {
		hdr += "+"
	}
	hdr += "}\r\n"
	var in string
	state := 1
	switch which {
	case 0:
		state = 0
		in = "A1 LOGIN " + hdr
	case 1:
		in = "A1 CREATE " + hdr
	case 2:
		in = "A1 APPEND m " + hdr
	}
	inb := []byte(in)
	if payload {
		n := []int{0, 4096, 4097}[si]
		for i := 0; i < n; i++ {
			inb = append(inb, 'x')
		}
		if which == 0 {
			inb = append(inb, " p"...)
		}
		inb = append(inb, "\r\nZ9 NOOP\r\n"...)
	}
	caps := imap.CapSet{imap.CapIMAP4rev1: {}}
	if litPlus {
		caps[imap.CapLiteralPlus] = struct{}{}
	}
	v := vNewServer(caps, true)
	v.preAuth = state > 0
	vc := &vConn{in: inb, silent: true}
	if payload && !plus {
		// a well-behaved client sends the payload only after the continuation request
		hl := len(in)
		vc.avail = func(c *vConn) int {
			lines, _ := vLines(c.out)
			for _, l := range lines {
				if vHasPrefix(l, "+ ") {
					return len(c.in)
				}
			}
			return hl
		}
	}
	c := newConn(vc, v.srv)
	c.serve()
	nd.Reach("limits")
	nd.Note("in", in, payload, litPlus)
	nd.Note("out", string(vc.out))
	c06after(v, vc, "limits")
	lines, _ := vLines(vc.out)
	cont := false
	for _, l := range lines {
		cont = cont || vHasPrefix(l, "+ ")
	}
	limit := "4096"
	if which == 2 {
		limit = "104857600"
	}
	fits := len(sz) < len(limit) || (len(sz) == len(limit) && sz <= limit)
	nd.Assert(cont == (fits && !plus), "continuation-request-iff-synchronising-and-within-limit")
	if !payload && sz != "0" {
		nd.Assert(v.sess.count("Append") == 0 && v.sess.count("Login") == 0 && v.sess.count("Create") == 0, "nothing-executed-without-payload")
	}
	if !fits || (which == 2 && plus && !litPlus && si >= 2) {
		nd.Assert(v.sess.count("Append") == 0 && v.sess.count("Login") == 0 && v.sess.count("Create") == 0, "refused-literal-but-command-executed")
	}
	for _, o := range v.sess.calls {
		nd.Assert(len(o.lit) <= 4097, "append-payload-larger-than-sent")
	}
}

func c06depth(c *imap.SearchCriteria) int {
	d := 0
	for i := range c.Not {
		if x := 1 + c06depth(&c.Not[i]); x > d {
			d = x
		}
	}
	for i := range c.Or {
		for j := 0; j < 2; j++ {
			if x := 1 + c06depth(&c.Or[i][j]); x > d {
				d = x
			}
		}
	}
	return d
}

// VerifC06Nesting: concrete probes of nesting depth (labelled concrete: depths are fixed,
// the solver has nothing to decide): whatever reaches the backend is at most 1000 deep.
func VerifC06Nesting() {
	n := nd.Param("depth")
	form := nd.Concretize(nd.Choice(3))
	var line []byte
	line = append(line, "A1 SEARCH "...)
	switch form {
	case 0:
		for i := 0; i < n; i++ {
			line = append(line, "NOT "...)
		}
		line = append(line, "ALL"...)
	case 1:
		for i := 0; i < n; i++ {
			line = append(line, "OR ALL "...)
		}
		line = append(line, "ALL"...)
	case 2:
		for i := 0; i < n; i++ {
			line = append(line, '(')
		}
		line = append(line, "ALL"...)
		for i := 0; i < n; i++ {
			line = append(line, ')')
		}
	}
	line = append(line, "\r\nA2 NOOP\r\n"...)
	v, vc := c06run(line, 2, false)
	nd.Reach("nested")
	c06after(v, vc, "nesting")
	for _, o := range v.sess.calls {
		if o.op == "Search" {
			d := c06depth(o.criteria)
			nd.Note("depth", form, n, d)
			nd.Assert(d <= 1000, "search-key-nesting-not-bounded")
		}
	}
}
