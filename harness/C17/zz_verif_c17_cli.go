package imapclient

// Harness for C17, client side: responses that arrive in plaintext right after the
// STARTTLS completion are never interpreted once the upgrade has happened; a client that
// upgrades refuses a pre-authenticated greeting.

import (
	"crypto/tls"
	"strings"

	"github.com/emersion/go-imap/v2"
	nd "github.com/emersion/go-imap/v2/internal/zzverif/nd"
)

func init() {
	nd.Register("VerifC17Client", VerifC17Client)
	nd.Register("VerifC17NewStartTLS", VerifC17NewStartTLS)
}

var c17cliSuffixes = []string{"* PREAUTH hi\r\n", "* OK [CAPABILITY IMAP4rev1 AUTH=PLAIN] x\r\n", "* CAPABILITY IMAP4rev1 EVIL\r\n", "T2 OK done\r\n", "* 5 EXISTS\r\n", "* BYE x\r\n"}

func VerifC17Client() {
	var suffix []byte
	if nd.Bool() {
		suffix = nd.Bytes(nd.Concretize(nd.Choice(nd.Param("k") + 1)))
	} else {
		suffix = []byte(c17cliSuffixes[nd.Concretize(nd.Choice(len(c17cliSuffixes)))])
	}
	vc := &vcConn{in: append([]byte("T1 OK [CAPABILITY IMAP4rev1] begin\r\n"), suffix...)}
	if nd.Bool() {
		vc.maxRead = 1
	}
	handled := 0
	opts := &Options{UnilateralDataHandler: &UnilateralDataHandler{
		Expunge: func(uint32) { handled++ },
		Mailbox: func(*UnilateralDataMailbox) { handled++ },
		Fetch:   func(*FetchMessageData) { handled++ },
	}}
	c := vcDirect(vc, imap.ConnStateNotAuthenticated, opts)
	up := make(chan struct{})
	cmd := &startTLSCommand{tlsConfig: &tls.Config{}, upgradeDone: up}
	vcPend(c, cmd)
	other := &Command{}
	vcPend(c, other) // T2: a second pending command that a forged "T2 OK" would complete
	err := c.readResponse()
	nd.Reach("upgraded")
	nd.Note("suffix", suffix, vc.maxRead)
	nd.Assert(err == nil, "starttls-completion-parsed")
	done, cerr := vcDone(cmd)
	nd.Assert(done && cerr == nil, "starttls-command-completed")
	select {
	case <-up:
	default:
		nd.Fail("upgrade-not-signalled")
	}
	nd.Assert(c.br.Buffered() == 0, "plaintext-left-in-the-imap-read-buffer")
	caps := len(c.caps)
	// whatever follows now goes through the TLS layer: reading must not yield IMAP data
	for i := 0; i < 3; i++ {
		if c.readResponse() != nil {
			break
		}
	}
	nd.Assert(c.state == imap.ConnStateNotAuthenticated, "client-state-changed-by-plaintext-after-starttls")
	nd.Assert(c.mailbox == nil, "client-mailbox-changed-by-plaintext-after-starttls")
	nd.Assert(len(c.caps) == caps && !c.caps.Has("EVIL") && !c.caps.Has("AUTH=PLAIN"), "client-caps-changed-by-plaintext-after-starttls")
	nd.Assert(handled == 0, "unilateral-data-from-plaintext-after-starttls")
	d2, _ := vcDone(other)
	nd.Assert(!d2, "command-completed-by-plaintext-after-starttls")
}

// VerifC17NewStartTLS: the real New + reader goroutine (one cooperative schedule).
func VerifC17NewStartTLS() {
	// (a greeting without a CAPABILITY code makes the client send CAPABILITY right after the
	// upgrade; with the stubbed record layer that write fails and closes the client, which
	// says nothing about the property: not generated)
	greeting := []string{"* OK [CAPABILITY IMAP4rev1 STARTTLS] hi\r\n", "* PREAUTH [CAPABILITY IMAP4rev1] hi\r\n", "* BYE go away\r\n"}[nd.Concretize(nd.Choice(3))]
	reply := "T1 OK [CAPABILITY IMAP4rev1] begin\r\n"
	if nd.Bool() {
		reply = "T1 NO not now\r\n"
	}
	vc := &vcConn{in: []byte(greeting + reply)}
	vc.avail = func(c *vcConn) int {
		// the server answers STARTTLS only after having received it
		if strings.Contains(string(c.out), "STARTTLS\r\n") {
			return len(c.in)
		}
		return len(greeting)
	}
	vc.silent = true
	c, err := NewStartTLS(vc, &Options{TLSConfig: &tls.Config{}})
	nd.Reach("newstarttls")
	nd.Note("greeting", greeting, reply)
	okGreeting := vcHasPrefix(greeting, "* OK")
	if okGreeting && vcHasPrefix(reply, "T1 OK") {
		// success cannot be asserted: the scripted peer does not speak TLS, so the
		// reader goroutine fails (and closes the client) as soon as it touches the
		// record layer, which may happen before NewStartTLS looks at the state
		nd.Assert((err == nil) == (c != nil), "newstarttls-returns-client-xor-error")
	} else {
		nd.Assert(err != nil && c == nil, "starttls-must-fail-unless-greeting-ok-and-accepted")
	}
	if vcHasPrefix(greeting, "* PREAUTH") {
		nd.Assert(err != nil, "preauth-greeting-refused-when-upgrading")
	}
}
