package imapserver

// Harness for C17, server side: plaintext arriving after the STARTTLS line is never
// treated as IMAP once TLS is active; credentials only over TLS unless InsecureAuth.

import (
	"crypto/tls"
	"strings"

	"github.com/emersion/go-imap/v2"
	nd "github.com/emersion/go-imap/v2/internal/zzverif/nd"
)

func init() {
	nd.Register("VerifC17Server", VerifC17Server)
	nd.Register("VerifC17ServerAuth", VerifC17ServerAuth)
}

var c17suffixes = []string{"B LOGIN u p\r\n", "B NOOP\r\n", "B CAPABILITY\r\nC LOGIN u p\r\n", "B AUTHENTICATE PLAIN AHUAcA==\r\n"}

// VerifC17Server: "A STARTTLS" followed, in the same or a later segment, by symbolic bytes
// or a pipelined command.
func VerifC17Server() {
	insecure := nd.Bool()
	var suffix []byte
	if nd.Bool() {
		suffix = nd.Bytes(nd.Concretize(nd.Choice(nd.Param("k") + 1)))
	} else {
		suffix = []byte(c17suffixes[nd.Concretize(nd.Choice(len(c17suffixes)))])
	}
	v := vNewServer(imap.CapSet{imap.CapIMAP4rev1: {}}, insecure)
	v.srv.options.TLSConfig = &tls.Config{}
	vc := &vConn{in: append([]byte("A STARTTLS\r\n"), suffix...)}
	switch nd.Concretize(nd.Choice(3)) {
	case 1:
		vc.maxRead = 1 // byte by byte
	case 2:
		vc.maxRead = len("A STARTTLS\r\n") // the suffix arrives in the next segment
	}
	c := newConn(vc, v.srv)
	c.serve()
	nd.Reach("starttls-served")
	nd.Note("suffix", suffix, insecure, vc.maxRead)
	out := string(vc.out)
	okLine := "A OK Begin TLS negotiation now\r\n"
	i := strings.Index(out, okLine)
	// (translator validation compares what the IMAP layer wrote; whatever follows the OK
	// line is written by the TLS layer - natively a handshake alert record, nothing in the
	// executor's record-layer stub - and is judged by the assertions below, not by the note)
	if i >= 0 {
		nd.Note("out", out[:i+len(okLine)])
	} else {
		nd.Note("out", out)
	}
	nd.Assert(i >= 0, "starttls-accepted")
	if i < 0 {
		return
	}
	after := out[i+len(okLine):]
	// nothing of the suffix may be answered or executed as IMAP
	nd.Assert(len(v.sess.ops()) == 0, "plaintext-after-starttls-reached-the-backend")
	lines, _ := vLines([]byte(after))
	for _, l := range lines {
		nd.Assert(!(vHasPrefix(l, "B ") || vHasPrefix(l, "C ") || vHasPrefix(l, "* ") || vHasPrefix(l, "+ ")), "plaintext-after-starttls-answered-as-imap")
	}
	nd.Assert(c.state == imap.ConnStateNotAuthenticated, "state-changed-by-plaintext-after-starttls")
	_, isTLS := c.conn.(*tls.Conn)
	nd.Assert(isTLS, "connection-is-tls-after-starttls")
	nd.Assert(v.log.panics == 0, "starttls-no-panic")
	nd.Assert(v.sess.closed == 1, "starttls-session-closed-once")
}

// VerifC17ServerAuth: without TLS and without InsecureAuth credentials are neither
// offered nor accepted; STARTTLS is refused without a TLS configuration.
func VerifC17ServerAuth() {
	insecure := nd.Bool()
	tlsCfg := nd.Bool()
	cmd := []string{"A LOGIN u p\r\n", "A AUTHENTICATE PLAIN AHUAcA==\r\n", "A AUTHENTICATE PLAIN\r\nAHUAcA==\r\n", "A STARTTLS\r\n", "A CAPABILITY\r\n"}[nd.Concretize(nd.Choice(5))]
	v := vNewServer(imap.CapSet{imap.CapIMAP4rev1: {}}, insecure)
	if tlsCfg {
		v.srv.options.TLSConfig = &tls.Config{}
	}
	vc := &vConn{in: []byte(cmd)}
	c := newConn(vc, v.srv)
	c.serve()
	nd.Reach("auth-served")
	out := string(vc.out)
	nd.Note("cmd", cmd, insecure, tlsCfg)
	nd.Note("out", out)
	if !insecure {
		nd.Assert(v.sess.count("Login") == 0, "credentials-accepted-on-plaintext")
	}
	lines, _ := vLines(vc.out)
	for _, l := range lines {
		j := -1
		if vHasPrefix(l, "* CAPABILITY ") {
			j = 2
		} else if k := strings.Index(l, "[CAPABILITY "); k >= 0 {
			j = k + 1
		}
		if j >= 0 {
			caps := l[j:] + " "
			if e := strings.IndexByte(caps, ']'); e >= 0 {
				caps = caps[:e] + " "
			}
			nd.Assert(strings.Contains(caps, " AUTH=") == insecure || strings.Contains(l, "Logged in") || strings.Contains(l, "authentication successful"), "auth-offered-iff-allowed")
			if !insecure {
				nd.Assert(strings.Contains(caps, " LOGINDISABLED "), "logindisabled-on-plaintext")
			}
		}
	}
	if cmd == "A STARTTLS\r\n" && !tlsCfg {
		_, isTLS := c.conn.(*tls.Conn)
		nd.Assert(!isTLS, "starttls-without-config-must-be-refused")
		nd.Assert(strings.Contains(out, "A NO ") || strings.Contains(out, "A BAD "), "starttls-without-config-refused-with-tagged-response")
	}
}
