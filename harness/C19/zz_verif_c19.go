package imapserver

// Harness for C19 (combining search criteria yields their intersection). Injected by
// overlay into package imapserver: the And law is driven through the public
// imap.SearchCriteria API, the key folding through the real readSearchKey.

import (
	"bufio"
	"strings"
	"time"

	"github.com/emersion/go-imap/v2"
	"github.com/emersion/go-imap/v2/internal/imapwire"
	nd "github.com/emersion/go-imap/v2/internal/zzverif/nd"
)

func init() {
	nd.Register("VerifC19AndScalars", VerifC19AndScalars)
	nd.Register("VerifC19AndLists", VerifC19AndLists)
	nd.Register("VerifC19Keys", VerifC19Keys)
}

// ---- abstract message and reference matcher ---------------------------------------

var c19flags = []imap.Flag{imap.FlagSeen, imap.FlagDeleted, "\\Recent", "kw"}
var c19hdr = []imap.SearchCriteriaHeaderField{{Key: "Subject", Value: "a"}, {Key: "X-K", Value: "b"}}
var c19str = []string{"x", "y"}

type c19msg struct {
	seq, uid uint32
	internal int64 // unix seconds, midnight UTC
	sent     int64
	size     int64
	flags    [4]bool
	hdr      [2]bool
	body     [2]bool
	text     [2]bool
}

const c19zeroSec = -62135596800 // unix seconds of the zero time.Time
const c19day = 86400
const c19base = 1703894400 // 2023-12-30 00:00:00 UTC

func c19symMsg() *c19msg {
	m := &c19msg{seq: nd.Uint32(), uid: nd.Uint32(), size: nd.Int64()}
	nd.Assume(m.seq != 0)
	nd.Assume(m.uid != 0)
	nd.Assume(m.size > 0)
	m.internal = c19base + int64(nd.Byte())*c19day
	m.sent = c19base + int64(nd.Byte())*c19day
	if nd.Param("coarse") == 1 {
		// And only orders instants: a power-of-two spacing keeps the terms cheap
		m.internal = c19base + int64(nd.Byte())<<17
		m.sent = c19base + int64(nd.Byte())<<17
	}
	for i := range m.flags {
		m.flags[i] = nd.Bool()
	}
	for i := 0; i < 2; i++ {
		m.hdr[i], m.body[i], m.text[i] = nd.Bool(), nd.Bool(), nd.Bool()
	}
	return m
}

func c19flagIdx(f imap.Flag) int {
	for i, u := range c19flags {
		if strings.EqualFold(string(u), string(f)) {
			return i
		}
	}
	nd.Fail("oracle-flag-outside-universe")
	return 0
}

func c19strIdx(s string) int {
	for i, u := range c19str {
		if u == s {
			return i
		}
	}
	nd.Fail("oracle-string-outside-universe")
	return 0
}

func c19hdrIdx(h imap.SearchCriteriaHeaderField) int {
	for i, u := range c19hdr {
		if strings.EqualFold(u.Key, h.Key) && u.Value == h.Value {
			return i
		}
	}
	nd.Fail("oracle-header-outside-universe")
	return 0
}

// c19match: documented field semantics (populated fields are AND-ed, zero = unset).
func c19match(c *imap.SearchCriteria, m *c19msg) bool {
	ok := true
	for _, s := range c.SeqNum {
		ok = nd.And(ok, s.Contains(m.seq))
	}
	for _, s := range c.UID {
		ok = nd.And(ok, s.Contains(imap.UID(m.uid)))
	}
	// zero time <=> Unix() == c19zeroSec (branch-free, unlike IsZero)
	ok = nd.And(ok, nd.Or(c.Since.Unix() == c19zeroSec, m.internal >= c.Since.Unix()))
	ok = nd.And(ok, nd.Or(c.Before.Unix() == c19zeroSec, m.internal < c.Before.Unix()))
	ok = nd.And(ok, nd.Or(c.SentSince.Unix() == c19zeroSec, m.sent >= c.SentSince.Unix()))
	ok = nd.And(ok, nd.Or(c.SentBefore.Unix() == c19zeroSec, m.sent < c.SentBefore.Unix()))
	for _, h := range c.Header {
		ok = nd.And(ok, m.hdr[c19hdrIdx(h)])
	}
	for _, s := range c.Body {
		ok = nd.And(ok, m.body[c19strIdx(s)])
	}
	for _, s := range c.Text {
		ok = nd.And(ok, m.text[c19strIdx(s)])
	}
	for _, f := range c.Flag {
		ok = nd.And(ok, m.flags[c19flagIdx(f)])
	}
	for _, f := range c.NotFlag {
		ok = nd.And(ok, !m.flags[c19flagIdx(f)])
	}
	ok = nd.And(ok, nd.Or(c.Larger == 0, m.size > c.Larger))
	ok = nd.And(ok, nd.Or(c.Smaller == 0, m.size < c.Smaller))
	for i := range c.Not {
		ok = nd.And(ok, !c19match(&c.Not[i], m))
	}
	for i := range c.Or {
		ok = nd.And(ok, nd.Or(c19match(&c.Or[i][0], m), c19match(&c.Or[i][1], m)))
	}
	return ok
}

// c19time: unset (zero time) or midnight UTC of a symbolic day, without forking.
func c19time() time.Time {
	unset := nd.Bool()
	day := int64(nd.Byte())
	at := c19base + day*c19day
	if nd.Param("coarse") == 1 {
		at = c19base + day<<17
	}
	sec := nd.IteInt(unset, c19zeroSec, int(at))
	return time.Unix(int64(sec), 0).UTC()
}

func c19size() int64 {
	n := nd.Int64()
	nd.Assume(n >= 0)
	return n
}

// c19scalars populates the scalar fields selected by mask (bit 0..3 dates, 4 Larger, 5 Smaller).
func c19scalars(c *imap.SearchCriteria, mask int) {
	if mask&1 != 0 {
		c.Since = c19time()
	}
	if mask&2 != 0 {
		c.Before = c19time()
	}
	if mask&4 != 0 {
		c.SentSince = c19time()
	}
	if mask&8 != 0 {
		c.SentBefore = c19time()
	}
	if mask&16 != 0 {
		c.Larger = c19size()
	}
	if mask&32 != 0 {
		c.Smaller = c19size()
	}
}

// VerifC19AndScalars: And over the four date bounds and the two size bounds, each
// unset or an arbitrary value.
func VerifC19AndScalars() {
	var a, b imap.SearchCriteria
	mask := nd.Param("mask")
	c19scalars(&a, mask)
	c19scalars(&b, mask)
	m := c19symMsg()
	c := a
	c.And(&b)
	nd.Reach("anded")
	nd.Assert(c19match(&c, m) == nd.And(c19match(&a, m), c19match(&b, m)), "and-is-intersection-scalars")
}

func c19simple(i int) imap.SearchCriteria {
	switch i {
	case 0:
		return imap.SearchCriteria{Flag: []imap.Flag{imap.FlagSeen}}
	case 1:
		return imap.SearchCriteria{Larger: 100}
	}
	return imap.SearchCriteria{Body: []string{"x"}, NotFlag: []imap.Flag{imap.FlagDeleted}}
}

func c19set() (uint32, uint32) {
	lo, hi := nd.Uint32(), nd.Uint32()
	nd.Assume(lo != 0)
	nd.Assume(lo <= hi)
	return lo, hi
}

// c19fillList populates one list-typed field of c with n (0/1) elements.
func c19fillList(c *imap.SearchCriteria, which, n int) {
	if n == 0 {
		return
	}
	switch which {
	case 0:
		lo, hi := c19set()
		var s imap.SeqSet
		s.AddRange(lo, hi)
		c.SeqNum = []imap.SeqSet{s}
	case 1:
		lo, hi := c19set()
		var s imap.UIDSet
		s.AddRange(imap.UID(lo), imap.UID(hi))
		c.UID = []imap.UIDSet{s}
	case 2:
		c.Header = []imap.SearchCriteriaHeaderField{c19hdr[nd.Concretize(nd.Choice(2))]}
	case 3:
		c.Body = []string{c19str[nd.Concretize(nd.Choice(2))]}
	case 4:
		c.Text = []string{c19str[nd.Concretize(nd.Choice(2))]}
	case 5:
		c.Flag = []imap.Flag{c19flags[nd.Concretize(nd.Choice(4))]}
	case 6:
		c.NotFlag = []imap.Flag{c19flags[nd.Concretize(nd.Choice(4))]}
	case 7:
		c.Not = []imap.SearchCriteria{c19simple(nd.Concretize(nd.Choice(3)))}
	case 8:
		c.Or = [][2]imap.SearchCriteria{{c19simple(nd.Concretize(nd.Choice(3))), c19simple(nd.Concretize(nd.Choice(3)))}}
	}
}

// VerifC19AndLists: one list-typed field at a time (every field, every 0/1 shape on
// both operands), together with one date bound and both size bounds.
func VerifC19AndLists() {
	which := nd.Concretize(nd.Choice(9))
	var a, b imap.SearchCriteria
	c19fillList(&a, which, nd.Concretize(nd.Choice(2)))
	c19fillList(&b, which, nd.Concretize(nd.Choice(2)))
	if nd.Param("lite") == 0 {
		// a second, different list field on b only (cross-field mix-ups)
		other := (which + 1 + nd.Concretize(nd.Choice(2))) % 9
		c19fillList(&b, other, nd.Concretize(nd.Choice(2)))
		a.Since, b.Since = c19time(), c19time()
		a.Larger = c19size()
	}
	a.Smaller, b.Smaller = c19size(), c19size()
	m := c19symMsg()
	c := a
	c.And(&b)
	nd.Reach("anded-lists")
	nd.Assert(c19match(&c, m) == nd.And(c19match(&a, m), c19match(&b, m)), "and-is-intersection-lists")
}

// ---- server key folding -------------------------------------------------------------

var c19dates = []struct {
	txt string
	sec int64
}{{"1-Jan-2024", 1704067200}, {"2-Jan-2024", 1704153600}, {"15-Mar-2024", 1710460800}}
var c19sizes = []int64{1, 100, 5000}
var c19sets = []struct {
	txt    string
	lo, hi uint32
}{{"2:4", 2, 4}, {"3", 3, 3}, {"7:4294967295", 7, 4294967295}}

const c19nSimple = 23

// c19key returns the wire text of simple key number k and its RFC meaning for m.
func c19key(k int, m *c19msg) (string, bool) {
	switch k {
	case 0:
		return "ALL", true
	case 1:
		return "SEEN", m.flags[0]
	case 2:
		return "UNSEEN", !m.flags[0]
	case 3:
		return "DELETED", m.flags[1]
	case 4:
		return "UNDELETED", !m.flags[1]
	case 5:
		return "RECENT", m.flags[2]
	case 6:
		return "NEW", nd.And(m.flags[2], !m.flags[0])
	case 7:
		return "OLD", !m.flags[2]
	case 8:
		return "KEYWORD kw", m.flags[3]
	case 9:
		return "UNKEYWORD kw", !m.flags[3]
	case 10:
		n := c19sizes[nd.Concretize(nd.Choice(3))]
		return "LARGER " + c19itoa(n), m.size > n
	case 11:
		n := c19sizes[nd.Concretize(nd.Choice(3))]
		return "SMALLER " + c19itoa(n), m.size < n
	case 12:
		d := c19dates[nd.Concretize(nd.Choice(3))]
		return "SINCE " + d.txt, m.internal >= d.sec
	case 13:
		d := c19dates[nd.Concretize(nd.Choice(3))]
		return "BEFORE " + d.txt, m.internal < d.sec
	case 14:
		d := c19dates[nd.Concretize(nd.Choice(3))]
		return "ON " + d.txt, nd.And(m.internal >= d.sec, m.internal < d.sec+c19day)
	case 15:
		d := c19dates[nd.Concretize(nd.Choice(3))]
		return "SENTSINCE " + d.txt, m.sent >= d.sec
	case 16:
		d := c19dates[nd.Concretize(nd.Choice(3))]
		return "SENTBEFORE " + d.txt, m.sent < d.sec
	case 17:
		d := c19dates[nd.Concretize(nd.Choice(3))]
		return "SENTON " + d.txt, nd.And(m.sent >= d.sec, m.sent < d.sec+c19day)
	case 18:
		return "SUBJECT a", m.hdr[0]
	case 19:
		return "HEADER X-K \"b\"", m.hdr[1]
	case 20:
		i := nd.Concretize(nd.Choice(2))
		return "BODY " + c19str[i], m.body[i]
	case 21:
		i := nd.Concretize(nd.Choice(2))
		return "TEXT \"" + c19str[i] + "\"", m.text[i]
	case 22:
		s := c19sets[nd.Concretize(nd.Choice(3))]
		return "UID " + s.txt, nd.And(m.uid >= s.lo, m.uid <= s.hi)
	}
	s := c19sets[nd.Concretize(nd.Choice(3))]
	return s.txt, nd.And(m.seq >= s.lo, m.seq <= s.hi)
}

func c19itoa(n int64) string {
	if n == 0 {
		return "0"
	}
	var b []byte
	for n > 0 {
		b = append([]byte{byte('0' + n%10)}, b...)
		n /= 10
	}
	return string(b)
}

// c19anyKey: a simple key, or NOT key, OR key key, or a parenthesised pair.
func c19anyKey(m *c19msg) (string, bool) {
	form := nd.Concretize(nd.Choice(nd.Param("forms")))
	k1 := nd.Concretize(nd.Choice(c19nSimple + 1))
	t1, v1 := c19key(k1, m)
	switch form {
	case 0:
		return t1, v1
	case 1:
		return "NOT " + t1, !v1
	}
	k2 := nd.Concretize(nd.Choice(c19nSimple + 1))
	t2, v2 := c19key(k2, m)
	if form == 2 {
		return "OR " + t1 + " " + t2, nd.Or(v1, v2)
	}
	return "(" + t1 + " " + t2 + ")", nd.And(v1, v2)
}

// VerifC19Keys: a SEARCH key list of k keys is parsed by the real readSearchKey loop
// (the loop of handleSearch) and must select exactly the messages satisfying all keys.
func VerifC19Keys() {
	k := nd.Param("k")
	m := c19symMsg()
	line := ""
	want := true
	for i := 0; i < k; i++ {
		t, v := c19anyKey(m)
		if i > 0 {
			line += " "
		}
		line += t
		want = nd.And(want, v)
	}
	dec := imapwire.NewDecoder(bufio.NewReader(strings.NewReader(line+"\r\n")), imapwire.ConnSideServer)
	var criteria imap.SearchCriteria
	for {
		if err := readSearchKey(&criteria, dec, 0); err != nil {
			nd.Note("line", line)
			nd.Fail("valid-search-key-rejected")
		}
		if !dec.SP() {
			break
		}
	}
	if !dec.ExpectCRLF() {
		nd.Note("line", line)
		nd.Fail("search-line-not-consumed")
	}
	nd.Reach("keys-parsed")
	nd.Note("line", line)
	nd.Assert(c19match(&criteria, m) == want, "search-keys-select-intersection")
}
