#!/usr/bin/env python3
"""Rewrites the seeded-changes table of DESIGN.md (between the seedtable markers) from
/verif/seeded/*/meta.json."""
import json, glob, os, re
rows = []
for d in sorted(glob.glob('/verif/seeded/C*')):
    m = json.load(open(os.path.join(d, 'meta.json')))
    name = os.path.basename(d)
    chk = m.get('check', {})
    first = m.get('first_run', chk)
    def fmt(c):
        if not c: return 'not run'
        if c.get('detected'):
            labs = sorted(set(v.split(':', 1)[1] for v in c.get('violations', [])))
            return 'caught (' + ', '.join(labs[:2]) + (', ...' if len(labs) > 2 else '') + ')'
        return 'MISSED' if c.get('exit') == 0 else 'inconclusive (exit %s)' % c.get('exit')
    summ = re.sub(r'\s+', ' ', m.get('summary', ''))[:170]
    rows.append(f"| {name} | {summ} | {fmt(first)} | {fmt(chk)} |")
table = "| change | what it does | first run | now |\n|---|---|---|---|\n" + "\n".join(rows)
p = '/verif/DESIGN.md'
s = open(p).read()
if 'SEEDTABLE' in s:
    s = s.replace('SEEDTABLE', '<!-- seedtable:begin -->\n' + table + '\n<!-- seedtable:end -->')
else:
    s = re.sub(r'<!-- seedtable:begin -->.*?<!-- seedtable:end -->', '<!-- seedtable:begin -->\n' + table.replace('\\', '\\\\') + '\n<!-- seedtable:end -->', s, flags=re.S)
open(p, 'w').write(s)
print(len(rows), 'rows')
