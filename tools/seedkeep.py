#!/usr/bin/env python3
"""Copies validated seeded mutants from /tmp/seedout/<ID>/<N> into /verif/seeded/<ID>-<N>/ and
records what was run and whether the property's check detected them."""
import json, os, re, shutil, sys, glob
out = '/verif/seeded'
os.makedirs(out, exist_ok=True)
for d in sorted(glob.glob('/tmp/seedout/C*/[0-9]')):
    res = os.path.join(d, 'result.txt')
    if not (os.path.exists(res) and os.path.exists(os.path.join(d, 'meta.json'))):
        continue
    txt = open(res).read()
    ok = 'pristine+demo exit=0' in txt and 'patched suite exit=0' in txt and re.search(r'patched\+demo exit=[1-9]', txt)
    pid = os.path.basename(os.path.dirname(d)); n = os.path.basename(d)
    if not ok:
        print('NOT VALIDATED', d); continue
    dst = os.path.join(out, f'{pid}-{n}')
    os.makedirs(dst, exist_ok=True)
    for f in os.listdir(d):
        if f == 'patch.diff' or f.endswith('_test.go') or f == 'main.go':
            shutil.copy(os.path.join(d, f), os.path.join(dst, f if not f.endswith('_test.go') else f + '.txt'))
    meta = json.load(open(os.path.join(d, 'meta.json')))
    cands = [res] + glob.glob(os.path.join(d, 'recheck-*.txt'))
    latest = max(cands, key=os.path.getmtime)
    ctxt = open(latest).read()
    m = re.search(r'check (\S+) tier=(\S+) exit=(\d+)', ctxt)
    labels = sorted(set(re.findall(r'^VIOLATION .*?entry=(\S+) label=(\S+)', ctxt, re.M)))
    meta['breaks_property'] = pid
    meta['confirmed'] = {
        'how': 'tools/seedtest.sh in a scratch worktree of /repo: demo passes on the pristine tree; with the patch go build + the unedited test suite pass and the demo fails',
        'pristine_demo_exit': 0, 'patched_suite_exit': 0, 'patched_demo_exit': 'non-zero'}
    meta['check'] = {'command': f'bin/gosym check {pid}.json --tier {m.group(2)} --repo <worktree with patch>' if m else None,
                     'exit': int(m.group(3)) if m else None,
                     'detected': bool(m and m.group(3) == '1'),
                     'violations': [f'{e}:{l}' for e, l in labels]}
    old = os.path.join(dst, 'meta.json')
    if os.path.exists(old):
        om = json.load(open(old))
        meta['first_run'] = om.get('first_run', om.get('check'))
    else:
        meta['first_run'] = meta['check']
    meta['demo_file_note'] = 'the demonstration test is stored with a .txt suffix so that it is not compiled as part of /verif; copy it to <demo_pkg_dir>/demo_test.go'
    json.dump(meta, open(os.path.join(dst, 'meta.json'), 'w'), indent=1)
    shutil.copy(res, os.path.join(dst, 'result.txt'))
    if latest != res:
        shutil.copy(latest, os.path.join(dst, 'recheck.txt'))
    print(dst, 'detected' if meta['check']['detected'] else 'MISSED')
