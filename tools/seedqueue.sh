#!/bin/bash
# Runs seedtest.sh over every /tmp/seedout/<ID>/<N> that has a meta.json and no result yet, sequentially.
while [ ! -e /tmp/seedout/STOP ]; do
  did=0
  for d in /tmp/seedout/C*/[0-9]; do
    [ -f "$d/meta.json" ] && [ -f "$d/patch.diff" ] || continue
    [ -f "$d/result.txt" ] && continue
    id=$(basename $(dirname "$d"))
    [ -f /verif/checks/$id.json ] || continue
    /verif/tools/seedtest.sh "$d" "$id" quick > "$d/result.txt.tmp" 2>&1
    mv "$d/result.txt.tmp" "$d/result.txt"
    did=1
  done
  [ $did = 0 ] && sleep 30
done
