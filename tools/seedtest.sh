#!/bin/bash
# usage: seedtest.sh <dir-with-patch.diff,meta.json,demo> <property-id> [tier] [extra gosym flags]
# Validates a seeded mutant in a scratch worktree of /repo (pristine+demo passes; patched:
# suite passes, demo fails) and runs the property's check against the patched worktree.
set -u
export GOFLAGS=-mod=mod GOPROXY=off GOSUMDB=off GOTOOLCHAIN=local
D=$(realpath "$1"); ID=$2; TIER=${3:-quick}; shift; shift; shift || true
WT=$(mktemp -d /tmp/seedrun.XXXXXX)
trap 'git -C /repo worktree remove --force "$WT" >/dev/null 2>&1; rm -rf "$WT"' EXIT
git -C /repo worktree add -q --detach "$WT" HEAD || exit 3
PKG=$(python3 -c "import json;print(json.load(open('$D/meta.json')).get('demo_pkg_dir','.'))")
CMD=$(python3 -c "import json;print(json.load(open('$D/meta.json'))['demo_cmd'])")
DEMO=$(ls "$D" | grep -E '_test\.go$|^main\.go$' | head -1)
echo "== mutant $D (property $ID) demo=$DEMO pkg=$PKG cmd=$CMD"
if [ "${SKIP_VALIDATE:-0}" != 1 ]; then
cp "$D/$DEMO" "$WT/$PKG/" && (cd "$WT" && eval "$CMD" >/tmp/seedrun.$$.log 2>&1); P1=$?
echo "pristine+demo exit=$P1 (want 0)"
rm -f "$WT/$PKG/$DEMO"
fi
git -C "$WT" apply "$D/patch.diff" || { echo "patch does not apply"; exit 3; }
if [ "${SKIP_VALIDATE:-0}" != 1 ]; then
(cd "$WT" && go build ./... && go test -vet=off -count=1 ./... >/tmp/seedrun.$$.log 2>&1); P2=$?
echo "patched suite exit=$P2 (want 0)"
cp "$D/$DEMO" "$WT/$PKG/" && (cd "$WT" && eval "$CMD" >/tmp/seedrun.$$.log 2>&1); P3=$?
echo "patched+demo exit=$P3 (want !=0)"
rm -f "$WT/$PKG/$DEMO" /tmp/seedrun.$$.log
fi
cd /verif && timeout 3600 bin/gosym check $ID.json --tier $TIER --repo "$WT" --no-evidence "$@" > "$D/check-$ID-$TIER.log" 2>&1; RC=$?
echo "check $ID tier=$TIER exit=$RC"
grep -E "^(VIOLATION|KNOWN-FINDING|OK|INCONCLUSIVE|PROBLEM)" "$D/check-$ID-$TIER.log" | head -8
