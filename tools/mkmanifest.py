#!/usr/bin/env python3
"""Regenerates /verif/MANIFEST.json from the table below (kept in one place so the
manifest stays valid while checks are added)."""
import json, os

ENV = "GOFLAGS=-mod=mod GOPROXY=off GOSUMDB=off GOTOOLCHAIN=local"
TECH = "bounded symbolic execution of the real go/ssa code (own executor gosym) + SMT (z3 5.1.0 decides every branch and obligation; unsat obligations cross-checked with z3 4.8.12 except in the whole-connection entries marked no_cross in checks/<id>.json; cvc5 bv-as-int for decimal kernels and undecided obligations); counterexamples replayed natively before they are reported"

import glob
claimed = {}
for f in sorted(glob.glob("/verif/checks/C*.json")):
    s = json.load(open(f))
    if "manifest" in s and s["manifest"].get("level_text", "TBD") != "TBD":
        mf = s["manifest"]
        claimed[s["property"]] = dict(ref=mf["design_ref"], text=mf["level_text"], note=mf["level_note"])

not_applicable = {
 "C13": "quantifies over goroutine schedules (data races, exactly-once completion under all interleavings); the executor runs one deterministic cooperative schedule and no sound all-interleavings SMT encoding of the real client is within reach with the installed tools",
 "C14": "quantifies over schedules of 2..8 concurrent sessions (deadlock/race freedom); same reason; a static lock-order graph would be a different technique",
}

pending = "check not built yet in this session (see DESIGN.md section 2 for the planned harness); not claimed until it runs clean on the unchanged tree"

def main():
    props = [json.loads(l)["id"] for l in open("/verif/properties.jsonl")]
    checks = []
    for pid in props:
        if pid not in claimed:
            continue
        c = claimed[pid]
        checks.append({
            "property_id": pid,
            "quick_cmd": f"bin/gosym check {pid}.json --tier quick",
            "thorough_cmd": f"bin/gosym check {pid}.json --tier thorough",
            "evidence_file": f"/verif/evidence/{pid}.json",
            "replay_cmd_template": f"bin/gosym replay {pid}.json {{path}}",
            "engine": "gosym",
            "level_claimed": {"category": "other", "text": c["text"], "design_ref": c["ref"]},
            "level_note": c["note"],
            "technique": TECH,
        })
    na = []
    for pid in props:
        if pid in claimed:
            continue
        na.append({"property_id": pid, "reason": not_applicable.get(pid, pending)})
    m = {
        "version": 1,
        "setup_cmd": f"cd /verif/gosym && {ENV} go build -o ../bin/gosym .",
        "hooks": {
            "guard": "verif",
            "enable": "no hooks are committed to /repo: harnesses and the nd package are injected through go/packages and `go test -overlay` overlays (files under /verif/harness); the tag name is reserved and unused",
            "baseline_off_cmd": "cd /repo && go test -vet=off -count=1 ./...",
            "source_commits": [],
            "add_only": True,
        },
        "engines": [{"name": "gosym", "path": "/verif/gosym", "serves_properties": sorted(claimed), "kind_free_text": "symbolic executor for Go SSA (go/ssa v0.29.0) emitting SMT-LIB2 to z3/cvc5; replay-with-decision-prefix path exploration; native replay of counterexamples through go test -overlay"}],
        "checks": checks,
        "not_applicable": na,
        "notes": "Every check rebuilds the SSA encoding from /repo's working tree. Exit 0 = held within stated bounds; 1 + VIOLATION line = natively reproduced counterexample; 2 = inconclusive (engine error, unsupported construct, solver unknown, vacuous harness) and is never reported as success.",
    }
    json.dump(m, open("/verif/MANIFEST.json", "w"), indent=1)
    print("claimed:", sorted(claimed), "not_applicable:", len(na))

main()
