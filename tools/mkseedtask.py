#!/usr/bin/env python3
"""Writes the task text handed to an independent sub-agent that is asked for a
property-breaking change (seeded mutant). The agent gets only the property text and a
scratch worktree; nothing from /verif."""
import json, sys
pid, wt, out = sys.argv[1:4]
N1, N2 = (sys.argv[4], sys.argv[5]) if len(sys.argv) > 5 else ("1", "2")
p = None
for l in open('/verif/properties.jsonl'):
    q = json.loads(l)
    if q['id'] == pid: p = q
anch = p['anchors']
mech = "\n".join(f"  - {m['name']} ({m['where']})" for m in anch.get('mechanism', []))
txt = f"""# Task: seed a realistic property-breaking change into emersion/go-imap

You are working in your own scratch git worktree of the Go library emersion/go-imap (v2): `{wt}`.
Work ONLY inside `{wt}` and `{out}`. Do not read or touch /repo, /verif or any other directory. There is no network.
Use: `export GOFLAGS=-mod=mod GOPROXY=off GOSUMDB=off GOTOOLCHAIN=local` before go commands.

## The property (this is all you are given)

**{p['title']}**

{p['statement']}

Quantified {p['quantifier']['text']}.

Code the property is anchored in: {', '.join(anch['files'])}
Mechanisms:
{mech}

## What to produce

Produce TWO different, independent changes (mutants) to the library source (non-test .go files), at different code sites, each of which:

1. BREAKS the property above (the library then really misbehaves with respect to the property's statement);
2. still COMPILES (`go build ./...`) and still PASSES the entire existing test suite unchanged: `cd {wt} && go test -vet=off -count=1 ./...` must pass with the change applied (do not edit existing tests);
3. is REALISTIC — the kind of slip a maintainer could make in a refactor/optimisation/bug-fix (off-by-one, wrong comparison, dropped check, reordered statements, wrong variable, missed case, boundary condition), small (a few lines);
4. needs SOMETHING SPECIFIC to manifest — an unusual input or boundary value, a particular multi-step sequence of operations, a particular configuration, a fault at a particular point, or two cooperating sites that each look fine alone. NOT something that ordinary use would expose at once (it must not break the common path).

For each mutant N in {{{N1},{N2}}} write into `{out}/N/`:
  - `patch.diff`   — output of `git -C {wt} diff` for that mutant only (apply cleanly with `git apply` on the pristine worktree HEAD);
  - a demonstration: either `demo_test.go` (a Go test file; say in meta.json which package directory it must be copied into, and the `go test -run` command) or a small `main` program, that FAILS with the change and PASSES without it;
  - `meta.json` — {{"property": "{pid}", "summary": "...what was changed and why it breaks the property...", "needs": "...what specific input/sequence/config is needed for it to manifest...", "demo_pkg_dir": "<dir relative to repo root where demo_test.go goes>", "demo_cmd": "<command run from repo root>"}}.

Verify yourself, for each mutant: (a) pristine tree + demo passes; (b) patched tree: full existing test suite passes (without the demo) and the demo fails. Reset the worktree between mutants with `git -C {wt} checkout -- . && git -C {wt} clean -fdq`. Leave the worktree pristine (no patch applied, no demo file) when done.

Finish by reporting, in a few lines, what each mutant does and the verification results you observed.
"""
open(f"{out}/TASK.md", "w").write(txt)
